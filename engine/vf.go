package main

// Harness primitives: methods of the prelude type vfT, intercepted by name.

import (
	"fmt"
	"go/token"
	"go/types"
	"math"
)

const tokADD = token.ADD

var vfFuncs map[string]nativeFn

func (ex *Exec) newInput(name, kind string, k types.BasicKind) value {
	n := ex.seq[name]
	ex.seq[name] = n + 1
	full := fmt.Sprintf("%s_%d", sanitize(name), n)
	if ex.fixed != nil {
		b := ex.fixed[full]
		ex.inputs = append(ex.inputs, inputRec{name: full, kind: kind, conc: b})
		return mkScalar(k, b)
	}
	t := ex.tc.Var(full, kindWidth(k))
	ex.inputs = append(ex.inputs, inputRec{name: full, kind: kind, term: t})
	return Sym{T: t, K: k}
}

func sanitize(s string) string {
	b := []byte(s)
	for i, c := range b {
		if !(c >= 'a' && c <= 'z' || c >= 'A' && c <= 'Z' || c >= '0' && c <= '9' || c == '_') {
			b[i] = '_'
		}
	}
	return "in_" + string(b)
}

func boolTerm(g *G, v value) *Term { return termOf(g.ex.tc, v) }

func init() {
	vfFuncs = map[string]nativeFn{
		"Int":     func(g *G, fr *frame, a []value) value { return g.ex.newInput(a[1].(string), "int", types.Int) },
		"Int64":   func(g *G, fr *frame, a []value) value { return g.ex.newInput(a[1].(string), "int64", types.Int64) },
		"Uint64":  func(g *G, fr *frame, a []value) value { return g.ex.newInput(a[1].(string), "uint64", types.Uint64) },
		"Int32":   func(g *G, fr *frame, a []value) value { return g.ex.newInput(a[1].(string), "int32", types.Int32) },
		"Int8":    func(g *G, fr *frame, a []value) value { return g.ex.newInput(a[1].(string), "int8", types.Int8) },
		"Bool":    func(g *G, fr *frame, a []value) value { return g.ex.newInput(a[1].(string), "bool", types.Bool) },
		"Float64": func(g *G, fr *frame, a []value) value { return g.ex.newInput(a[1].(string), "float64", types.Float64) },
		// Range: symbolic int in [lo,hi], then case-split to a concrete value
		"Range": func(g *G, fr *frame, a []value) value {
			lo, hi := a[2].(int), a[3].(int)
			name := a[1].(string)
			ex := g.ex
			k := ex.seq[name]
			ex.seq[name] = k + 1
			full := fmt.Sprintf("%s_%d", sanitize(name), k)
			var v int
			if ex.fixed != nil {
				v = int(int64(ex.fixed[full]))
			} else {
				if hi < lo {
					panic(abortPath{"infeasible", "empty range"})
				}
				v = lo + ex.Choose(g, hi-lo+1, name)
			}
			ex.inputs = append(ex.inputs, inputRec{name: full, kind: "int", conc: uint64(int64(v))})
			return v
		},
		// Choice: free n-way choice (recorded as a concrete input)
		"Choice": func(g *G, fr *frame, a []value) value {
			name := a[1].(string)
			n := a[2].(int)
			ex := g.ex
			k := ex.seq[name]
			ex.seq[name] = k + 1
			full := fmt.Sprintf("%s_%d", sanitize(name), k)
			var c int
			if ex.fixed != nil {
				c = int(ex.fixed[full])
			} else {
				c = ex.Choose(g, n, name)
			}
			ex.inputs = append(ex.inputs, inputRec{name: full, kind: "choice", conc: uint64(c)})
			return c
		},
		"Assume": func(g *G, fr *frame, a []value) value {
			t := boolTerm(g, a[1])
			if t.IsFalse() {
				panic(abortPath{"infeasible", "assume false"})
			}
			if t.IsTrue() {
				return nil
			}
			ex := g.ex
			if v, ok := ex.known[t.id]; ok {
				if !v {
					panic(abortPath{"infeasible", "assume"})
				}
				return nil
			}
			if len(ex.trace) >= len(ex.prefix) {
				// beyond the replayed prefix: check feasibility now
				if v, _ := ex.solver.Check(ex.pc, t, false); v == Unsat {
					panic(abortPath{"infeasible", "assume"})
				}
			}
			ex.addPC(t)
			return nil
		},
		"Assert": func(g *G, fr *frame, a []value) value {
			g.ex.assert(g, boolTerm(g, a[1]), a[2].(string))
			return nil
		},
		"Reach": func(g *G, fr *frame, a []value) value {
			g.ex.res.Reach[a[1].(string)] = true
			return nil
		},
		"Note": func(g *G, fr *frame, a []value) value {
			g.ex.notes = append(g.ex.notes, a[1].(string))
			return nil
		},
		"Notef": func(g *G, fr *frame, a []value) value {
			g.ex.notes = append(g.ex.notes, fmtSprintf(g, a[1].(string), a[2].([]value)))
			return nil
		},
		"And": func(g *G, fr *frame, a []value) value {
			return valOf(g.ex.tc.And(boolTerm(g, a[1]), boolTerm(g, a[2])), types.Bool)
		},
		"Or": func(g *G, fr *frame, a []value) value {
			return valOf(g.ex.tc.Or(boolTerm(g, a[1]), boolTerm(g, a[2])), types.Bool)
		},
		"Not": func(g *G, fr *frame, a []value) value { return valOf(g.ex.tc.Not(boolTerm(g, a[1])), types.Bool) },
		"Implies": func(g *G, fr *frame, a []value) value {
			return valOf(g.ex.tc.Or(g.ex.tc.Not(boolTerm(g, a[1])), boolTerm(g, a[2])), types.Bool)
		},
		"Ite": func(g *G, fr *frame, a []value) value {
			c := g.ex.tc
			k := kindOf(a[2])
			return valOf(c.Ite(boolTerm(g, a[1]), termOf(c, a[2]), termOf(c, a[3])), k)
		},
		"Ite64": func(g *G, fr *frame, a []value) value {
			c := g.ex.tc
			k := kindOf(a[2])
			return valOf(c.Ite(boolTerm(g, a[1]), termOf(c, a[2]), termOf(c, a[3])), k)
		},
		"Thorough": func(g *G, fr *frame, a []value) value { return gThorough },
		"IsSym":    func(g *G, fr *frame, a []value) value { return g.ex.fixed == nil },
		"Go": func(g *G, fr *frame, a []value) value {
			ng := g.ex.spawn(g, a[1], nil, false, "client@"+g.pos(instrPos(fr.caller.curInstr)))
			ng.client = g.ex.nclients
			g.ex.nclients++
			return nil
		},
		"Quiesce": func(g *G, fr *frame, a []value) value {
			g.visible(&pendOp{kind: "quiesce", enabled: func() bool { return false }})
			ex := g.ex
			if ex.mon != nil {
				for _, o := range ex.gs {
					if o != g {
						ex.mon.acquireVC(g, o.vc)
					}
				}
			}
			g.trace("quiesced")
			return nil
		},
		"Live": func(g *G, fr *frame, a []value) value {
			n := 0
			for _, o := range g.ex.gs {
				if !o.done && o.lib {
					n++
				}
			}
			return n
		},
		"LiveInfo": func(g *G, fr *frame, a []value) value {
			s := ""
			for _, o := range g.ex.gs {
				if !o.done && o.lib {
					k := "?"
					if o.pending != nil {
						k = o.pending.kind
					}
					s += fmt.Sprintf("g%d[%s] %s at %s; ", o.id, o.where, k, o.stack(3))
				}
			}
			return s
		},
		"Yield": extGosched,
		"Now": func(g *G, fr *frame, a []value) value {
			g.visible(&pendOp{kind: "now", obj: "clock", enabled: alwaysEnabled})
			g.ex.clock++
			return g.ex.clock
		},
		// Stamp: logical clock without a scheduling point (runs atomically with
		// the caller's previous visible operation)
		"Stamp": func(g *G, fr *frame, a []value) value {
			g.ex.clock++
			return g.ex.clock
		},
		"GID": func(g *G, fr *frame, a []value) value { return g.id },
		"SetPreempt": func(g *G, fr *frame, a []value) value {
			g.ex.preemptBound = a[1].(int)
			return nil
		},
		"F64bits": func(g *G, fr *frame, a []value) value {
			return math.Float64bits(concF64(g, a[1]))
		},
	}
}

// assert discharges one obligation: pc ⇒ cond.
func (ex *Exec) assert(g *G, cond *Term, label string) {
	ex.res.Obligations++
	if cond.IsTrue() {
		ex.res.Discharged++
		return
	}
	if cond.IsFalse() {
		ex.violate(g, "assert", label, "assertion is false on this path")
		panic(abortPath{"done", "assertion failed concretely"})
	}
	if v, ok := ex.known[cond.id]; ok && v {
		ex.res.Discharged++
		return
	}
	v, model := ex.solver.Check(ex.pc, ex.tc.Not(cond), true)
	switch v {
	case Unsat:
		ex.res.Discharged++
		ex.known[cond.id] = true
	case Sat:
		ex.addViolation("assert", label, "assertion can fail", model)
		// continue under the assumption that it held, if that is feasible
		if vv, _ := ex.solver.Check(ex.pc, cond, false); vv == Unsat {
			panic(abortPath{"done", "assertion always fails here"})
		}
		ex.addPC(cond)
	default:
		ex.res.Inconclusive = append(ex.res.Inconclusive, "unknown: assertion "+label)
		ex.addPC(cond)
	}
}
