package main

// Path controller (stateless DFS by re-execution) and goroutine scheduler.

import (
	"fmt"
	"os"
	"sort"
	"strings"
	"sync"
	"sync/atomic"
	"time"

	"golang.org/x/tools/go/ssa"
)

// Dec is one recorded decision of a path.
type Dec struct {
	K byte   // 'b' symbolic branch, 'c' free choice, 's' schedule, 'v' concretisation
	C int    // alternative taken
	V uint64 // for 'v': the value tried
	F bool   // forced (no sibling, not added to pc)
}

type Config struct {
	Unwind          int   // per-frame block visit bound
	MaxDepth        int   // call depth
	MaxSteps        int64 // instructions per path
	MaxDecisions    int   // decisions per path
	Preempt         int   // preemption bound
	MaxGoroutines   int
	MaxVisible      int // visible operations per path
	MapRangeRotate  bool
	ConcretizeIndex bool // case-split symbolic slice indexes instead of ite-chains
	Race            bool
	MaxPaths        int64
	Workers         int
	StopOnFirst     bool
}

func defaultConfig() Config {
	return Config{Unwind: 300, MaxDepth: 400, MaxSteps: 20_000_000, MaxDecisions: 3000, Preempt: 2,
		MaxGoroutines: 40, MaxVisible: 6000, Race: true, MaxPaths: 2_000_000, Workers: 16}
}

type Violation struct {
	Label    string            `json:"label"`
	Kind     string            `json:"kind"` // assert, panic, deadlock, race, leak
	Detail   string            `json:"detail"`
	Inputs   []InputVal        `json:"inputs"`
	Decs     []Dec             `json:"-"`
	DecStr   string            `json:"decisions"`
	Trace    []string          `json:"trace,omitempty"`
	Notes    []string          `json:"notes,omitempty"`
	Entry    string            `json:"entry"`
	Model    map[string]uint64 `json:"-"`
	Sig      string            `json:"signature"`
	Replayed string            `json:"replayed,omitempty"`
	Order    []int             `json:"client_start_order,omitempty"`
	Arrival  []string          `json:"-"` // arrival-sensitive channel sites in force when the entry was explored
}

type InputVal struct {
	Name string `json:"name"`
	Kind string `json:"kind"`
	Val  string `json:"val"`
	bits uint64
	sym  bool
}

type inputRec struct {
	name string
	kind string
	term *Term // nil for concrete (choice) inputs
	conc uint64
}

type PathResult struct {
	Status       string // ok, violation, infeasible, unsupported, unwind, budget, error
	Detail       string
	Violations   []*Violation
	Decs         []Dec
	Reach        map[string]bool
	Notes        []string
	Obligations  int
	Discharged   int
	Sched        int
	Steps        int64
	Fns          map[*ssa.Function]bool
	Inconclusive []string
}

type Exec struct {
	spinResets int
	sigSeen    map[uint64]int
	sigHeap    int64
	ranAt      []*G
	spinning   map[*G]bool
	fnIDs      map[*ssa.Function]int
	prog       *Program
	cfg        *Config
	entry      *ssa.Function
	tc         *TermCtx
	solver     *Solver
	work       *WorkList

	prefix []Dec
	trace  []Dec
	pc     []*Term
	known  map[int]bool

	globals     map[*ssa.Global]*value
	steps       int64
	heapVersion int64

	// scheduler
	gs           []*G
	cur          *G
	yield        chan *G
	killed       bool
	preemptions  int
	preemptBound int
	objs         objTable
	foot         map[interface{}]bool
	sleep        map[*G]bool
	clientOrder  []int
	nclients     int
	visible      int
	nextObj      int
	mon          *Monitor
	schedTrace   []string
	clock        int

	inputs []inputRec
	res    PathResult
	fixed  map[string]uint64 // concrete replay: input name#seq -> value
	seq    map[string]int
	fns    map[*ssa.Function]bool
	notes  []string
	ctxBg  *CtxNode
	stop   bool
}

func (ex *Exec) noteFn(fn *ssa.Function) {
	if !ex.fns[fn] {
		ex.fns[fn] = true
	}
}

func (ex *Exec) globalAddr(gl *ssa.Global) *value {
	v := zero(derefType(gl.Type()))
	p := &v
	ex.globals[gl] = p
	return p
}

func (ex *Exec) addPC(t *Term) {
	if t.IsTrue() {
		return
	}
	ex.pc = append(ex.pc, t)
	ex.known[t.id] = true
	if t.op == "not" {
		ex.known[t.args[0].id] = false
	} else {
		ex.known[ex.tc.Not(t).id] = false
	}
}

func (ex *Exec) nextDec(kind byte) *Dec {
	i := len(ex.trace)
	if i < len(ex.prefix) {
		d := ex.prefix[i]
		if d.K != kind {
			panic(engineError{fmt.Sprintf("re-execution diverged at decision %d: want kind %c got %c", i, d.K, kind)})
		}
		return &d
	}
	return nil
}

func (ex *Exec) record(d Dec) {
	ex.trace = append(ex.trace, d)
	if len(ex.trace) > ex.cfg.MaxDecisions {
		panic(abortPath{"unwind", "decision depth bound"})
	}
}

func (ex *Exec) pushSibling(d Dec) {
	p := make([]Dec, len(ex.trace)+1)
	copy(p, ex.trace)
	p[len(ex.trace)] = d
	ex.work.Push(p)
}

// Branch decides a symbolic condition; returns the concrete outcome followed.
func (ex *Exec) Branch(g *G, cond *Term) bool {
	if cond.IsConst() {
		return cond.val == 1
	}
	if v, ok := ex.known[cond.id]; ok {
		return v
	}
	if d := ex.nextDec('b'); d != nil {
		take := d.C == 0
		if !d.F {
			if take {
				ex.addPC(cond)
			} else {
				ex.addPC(ex.tc.Not(cond))
			}
		} else {
			ex.known[cond.id] = take
		}
		ex.record(*d)
		return take
	}
	vT, _ := ex.solver.Check(ex.pc, cond, false)
	if vT == Unsat {
		ex.known[cond.id] = false
		ex.record(Dec{K: 'b', C: 1, F: true})
		return false
	}
	vF, _ := ex.solver.Check(ex.pc, ex.tc.Not(cond), false)
	if vF == Unsat {
		ex.known[cond.id] = true
		ex.record(Dec{K: 'b', C: 0, F: true})
		return true
	}
	// both feasible (or unknown: explored, soundness kept by the final assertion queries)
	ex.pushSibling(Dec{K: 'b', C: 1})
	ex.record(Dec{K: 'b', C: 0})
	ex.addPC(cond)
	return true
}

// Choose is a free n-way choice (no solver involved).
func (ex *Exec) Choose(g *G, n int, tag string) int {
	return ex.choose('c', n)
}

func (ex *Exec) choose(kind byte, n int) int {
	if n <= 1 {
		return 0
	}
	if d := ex.nextDec(kind); d != nil {
		ex.record(*d)
		return d.C
	}
	for i := n - 1; i >= 1; i-- {
		ex.pushSibling(Dec{K: kind, C: i})
	}
	ex.record(Dec{K: kind, C: 0})
	return 0
}

// Concretize forks on the feasible values of t and returns the one followed.
func (ex *Exec) Concretize(g *G, t *Term) uint64 {
	if t.IsConst() {
		return t.val
	}
	c := ex.tc
	mkc := func(v uint64) *Term {
		if t.W == 0 {
			return c.Bool(v != 0)
		}
		return c.BV(v, t.W)
	}
	for {
		if d := ex.nextDec('v'); d != nil {
			ex.record(*d)
			if d.C == 0 {
				ex.addPC(c.Eq(t, mkc(d.V)))
				return d.V
			}
			ex.addPC(c.Not(c.Eq(t, mkc(d.V))))
			continue
		}
		// make sure t's variables are known to the solver, then ask for a value
		v, model := ex.solver.Check(ex.pc, c.Eq(t, t), true)
		if v == Sat {
			// t==t folds to true, so t may be undeclared; evaluate under the model
		}
		if v == Unsat {
			panic(abortPath{"infeasible", "concretize"})
		}
		if v == Unknown {
			panic(abortPath{"unknown", "solver unknown in concretize"})
		}
		val := c.Eval(t, model, map[int]uint64{})
		// the model may not constrain t's own variables if they were never sent; check t==val is feasible
		if vv, _ := ex.solver.Check(ex.pc, c.Eq(t, mkc(val)), false); vv != Sat {
			// ask with t forced into the query
			vv2, m2 := ex.solver.Check(ex.pc, c.Not(c.Eq(t, mkc(val))), true)
			if vv2 != Sat {
				panic(abortPath{"infeasible", "concretize"})
			}
			val = c.Eval(t, m2, map[int]uint64{})
		}
		ex.pushSibling(Dec{K: 'v', C: 1, V: val})
		ex.record(Dec{K: 'v', C: 0, V: val})
		ex.addPC(c.Eq(t, mkc(val)))
		return val
	}
}

// ---- work list

type WorkList struct {
	mu     sync.Mutex
	cond   *sync.Cond
	items  [][]Dec
	active int
	closed bool
	pushed int64
	maxLen int
}

func NewWorkList() *WorkList {
	w := &WorkList{}
	w.cond = sync.NewCond(&w.mu)
	return w
}

func (w *WorkList) Push(p []Dec) {
	w.mu.Lock()
	w.items = append(w.items, p)
	w.pushed++
	if len(w.items) > w.maxLen {
		w.maxLen = len(w.items)
	}
	w.mu.Unlock()
	w.cond.Signal()
}

// Pop blocks until an item is available or all workers are idle.
func (w *WorkList) Pop() ([]Dec, bool) {
	w.mu.Lock()
	defer w.mu.Unlock()
	for {
		if w.closed {
			return nil, false
		}
		if n := len(w.items); n > 0 {
			p := w.items[n-1]
			w.items = w.items[:n-1]
			w.active++
			return p, true
		}
		if w.active == 0 {
			w.closed = true
			w.cond.Broadcast()
			return nil, false
		}
		w.cond.Wait()
	}
}

func (w *WorkList) Done() {
	w.mu.Lock()
	w.active--
	if w.active == 0 && len(w.items) == 0 {
		w.closed = true
		w.cond.Broadcast()
	}
	w.mu.Unlock()
}

func (w *WorkList) Close() {
	w.mu.Lock()
	w.closed = true
	w.cond.Broadcast()
	w.mu.Unlock()
}

// ---- goroutines and scheduler

type pendOp struct {
	kind    string
	obj     interface{}
	extra   []interface{} // further objects in the operation's footprint
	ro      bool          // read-only on its objects (commutes with other reads)
	enabled func() bool
	yieldy  bool // switching away here is not a preemption (Gosched-like)
}

// objects lists the model objects the pending operation depends on.
func (op *pendOp) objects() []interface{} {
	var out []interface{}
	switch o := op.obj.(type) {
	case nil:
	case *recvSet:
		for _, c := range o.chans {
			out = append(out, c)
		}
	case *Chan:
		if o != nil {
			out = append(out, o)
		}
	default:
		out = append(out, o)
	}
	return append(out, op.extra...)
}

// touch records that the running transition accessed a model object.
func (ex *Exec) touch(o interface{}, ro bool) {
	if ex.foot == nil {
		return
	}
	if prev, ok := ex.foot[o]; ok {
		ex.foot[o] = prev && ro
	} else {
		ex.foot[o] = ro
	}
}

func (ex *Exec) dependent(s *G) bool {
	if s.pending == nil {
		return true
	}
	for _, o := range s.pending.objects() {
		if ro, ok := ex.foot[o]; ok && !(ro && s.pending.ro) {
			return true
		}
	}
	for _, o := range s.held {
		if _, ok := ex.foot[o]; ok {
			return true
		}
	}
	return false
}

type G struct {
	id      int
	ex      *Exec
	resume  chan struct{}
	done    bool
	lib     bool
	pending *pendOp
	vc      []int
	depth   int
	top     *frame
	where   string
	held    []interface{} // lock-set (model objects)
	recvVal value         // rendezvous hand-off
	recvOk  bool
	handed  bool
	selIdx  int
	parked  string
	client  int
	obs     map[*value]uint64 // last value this goroutine observed per atomic cell (spin detection)
}

// observe records the value an atomic load returned to g: a retry loop that
// sees a different value each time round is making progress.
func (g *G) observe(p *value, v value) {
	if g.obs == nil {
		g.obs = map[*value]uint64{}
	}
	g.obs[p] = uint64(hashString(toString(v))) + 1
}

func alwaysEnabled() bool { return true }

func (ex *Exec) liveCount() int {
	n := 0
	for _, g := range ex.gs {
		if !g.done {
			n++
		}
	}
	return n
}

// visible is called by a goroutine before each visible operation. When it
// returns the operation is enabled and the goroutine owns the baton.
func (g *G) visible(op *pendOp) {
	ex := g.ex
	ex.visible++
	if ex.visible > ex.cfg.MaxVisible {
		panic(abortPath{"budget", "visible operation bound"})
	}
	if ex.liveCount() == 1 && op.enabled() {
		return
	}
	g.pending = op
	ex.yield <- g
	<-g.resume
	if ex.killed {
		panic(killSignal{})
	}
	for _, o := range op.objects() {
		ex.touch(o, op.ro)
	}
	g.pending = nil
}

func (ex *Exec) spawn(parent *G, fn value, args []value, lib bool, where string) *G {
	if len(ex.gs) >= ex.cfg.MaxGoroutines {
		panic(abortPath{"budget", "goroutine bound"})
	}
	g := &G{id: len(ex.gs), ex: ex, resume: make(chan struct{}), lib: lib, where: where, client: -1}
	if parent != nil {
		if ex.mon != nil {
			ex.mon.fork(parent, g)
		}
	} else if ex.mon != nil {
		ex.mon.initG(g)
	}
	g.pending = &pendOp{kind: "start", enabled: alwaysEnabled}
	ex.gs = append(ex.gs, g)
	ex.heapVersion++
	go func() {
		<-g.resume
		defer func() {
			p := recover()
			g.done = true
			g.pending = nil
			ex.heapVersion++
			switch p := p.(type) {
			case nil:
			case killSignal:
				ex.yield <- g
				return
			case abortPath:
				if ex.res.Status == "" {
					ex.res.Status = p.kind
					ex.res.Detail = p.detail
				}
				ex.stop = true
			case targetPanic:
				ex.violate(g, "panic", "uncaught-panic", fmt.Sprintf("goroutine %d (%s): %s", g.id, g.where, ex.panicString(g, p)))
				ex.stop = true
			case engineError:
				if ex.res.Status == "" || ex.res.Status == "ok" {
					ex.res.Status = "error"
					ex.res.Detail = p.msg
				}
				ex.stop = true
			default:
				if ex.res.Status == "" || ex.res.Status == "ok" {
					ex.res.Status = "error"
					ex.res.Detail = fmt.Sprintf("%v", p)
				}
				ex.stop = true
			}
			if ex.mon != nil {
				ex.mon.exit(g)
			}
			ex.yield <- g
		}()
		if ex.killed {
			panic(killSignal{})
		}
		g.pending = nil
		call(g, nil, 0, fn, args)
	}()
	return g
}

func (ex *Exec) panicString(g *G, p targetPanic) string {
	if p.msg != "" {
		return p.msg
	}
	if it, ok := p.v.(iface); ok && it.t != nil {
		// try Error()/String() natively for strings
		if s, ok := it.v.(string); ok {
			return s
		}
		return fmt.Sprintf("%s %s", it.t, toString(it.v))
	}
	return toString(p.v)
}

// schedule runs the scheduler loop until the main goroutine finishes, the
// path is stopped, or nothing can run.
func (ex *Exec) schedule() {
	main := ex.gs[0]
	ex.cur = main
	for {
		if ex.stop || main.done {
			break
		}
		var enabled []*G
		for _, g := range ex.gs {
			if !g.done && g.pending != nil && g.pending.kind != "quiesce" && g.pending.enabled() {
				enabled = append(enabled, g)
			}
		}
		if os.Getenv("FSX_DEBUG") == "2" {
			str := ""
			for _, g := range ex.gs {
				k := "-"
				if g.pending != nil {
					k = g.pending.kind
				}
				str += fmt.Sprintf("g%d:%s/done=%v/sleep=%v/spin=%v ", g.id, k, g.done, ex.sleep[g], ex.spinning[g])
			}
			fmt.Fprintf(os.Stderr, "sched: enabled=%d %s\n", len(enabled), str)
		}
		var spinEnabled []*G
		if len(enabled) > 0 && ex.liveCount() > 1 {
			ex.detectSpin()
			if len(ex.spinning) > 0 {
				var ns []*G
				for _, g := range enabled {
					if !ex.spinning[g] {
						ns = append(ns, g)
					} else {
						spinEnabled = append(spinEnabled, g)
					}
				}
				// goroutines on a no-progress cycle are treated as blocked
				// (weak fairness): others run first; if only spinners remain
				// the state is quiescent.
				enabled = ns
			}
		}
		if len(enabled) == 0 {
			// quiescence
			var q *G
			for _, g := range ex.gs {
				if !g.done && g.pending != nil && g.pending.kind == "quiesce" {
					q = g
					break
				}
			}
			// a goroutine waiting for a lock that a spinner holds will get it
			// as the spinner steps on: that is not a quiescent state.
			lockWait := false
			for _, g := range ex.gs {
				if g.done || g.pending == nil || ex.spinning[g] {
					continue
				}
				if m, ok := g.pending.obj.(*Mutex); ok && (g.pending.kind == "lock" || g.pending.kind == "rlock") {
					if m.owner != nil && ex.spinning[m.owner] {
						lockWait = true
					}
				}
			}
			if (q == nil || lockWait) && len(spinEnabled) > 0 && ex.spinResets < 300 {
				// nobody is waiting for quiescence: a blocked goroutine may
				// need something a spinner holds - let the spinners step on
				// (they keep their mark, so a goroutine that becomes enabled
				// runs first).
				ex.spinResets++
				enabled = spinEnabled
			} else if q == nil {
				ex.deadlock()
				break
			} else {
				enabled = []*G{q}
			}
		}
		if len(ex.spinning) > 0 && len(ex.sleep) > 0 {
			// fairness overrides partial-order pruning while goroutines spin
			ex.sleep = map[*G]bool{}
		}
		var cands []*G
		for _, g := range enabled {
			if !ex.sleep[g] {
				cands = append(cands, g)
			}
		}
		if len(cands) == 0 {
			// every enabled transition was already explored from an equivalent state
			ex.res.Status = "pruned"
			if os.Getenv("FSX_DEBUG") != "" {
				fmt.Fprintf(os.Stderr, "pruned(all asleep): enabled=%d spinning=%d trace=%v\n", len(enabled), len(ex.spinning), ex.schedTrace)
			}
			break
		}
		next := ex.pick(cands, enabled)
		if next == nil {
			if os.Getenv("FSX_DEBUG") != "" {
				fmt.Fprintf(os.Stderr, "pruned(cur asleep): spinning=%d\n", len(ex.spinning))
			}
			ex.res.Status = "pruned"
			break
		}
		ex.cur = next
		if next.client >= 0 && next.pending != nil && next.pending.kind == "start" {
			ex.clientOrder = append(ex.clientOrder, next.client)
		}
		ex.foot = map[interface{}]bool{}
		ex.ranAt = append(ex.ranAt, next)
		next.resume <- struct{}{}
		<-ex.yield
		if len(ex.spinning) > 0 && !ex.spinning[next] && len(ex.foot) > 0 {
			ex.spinning = nil
			ex.sigSeen = nil
		}
		for s := range ex.sleep {
			if s.done || ex.dependent(s) {
				delete(ex.sleep, s)
			}
		}
	}
	// tear down
	ex.killed = true
	for _, g := range ex.gs {
		if !g.done {
			g.resume <- struct{}{}
			<-ex.yield
		}
	}
}

func (ex *Exec) pick(cands, enabled []*G) *G {
	curEnabled, curCand := false, false
	for _, g := range enabled {
		if g == ex.cur {
			curEnabled = true
		}
	}
	for _, g := range cands {
		if g == ex.cur {
			curCand = true
		}
	}
	yieldy := curEnabled && ex.cur.pending != nil && ex.cur.pending.yieldy
	if curEnabled && !yieldy && ex.preemptions >= ex.preemptBound {
		if !curCand {
			return nil // must continue cur, but cur is asleep: redundant
		}
		return ex.cur
	}
	if len(cands) == 1 && len(enabled) == 1 {
		return cands[0]
	}
	// order: current first, then by id
	ord := make([]*G, 0, len(cands))
	if curCand {
		ord = append(ord, ex.cur)
	}
	for _, g := range cands {
		if g != ex.cur {
			ord = append(ord, g)
		}
	}
	i := 0
	if len(ord) > 1 {
		i = ex.choose('s', len(ord))
		ex.res.Sched++
	}
	if os.Getenv("FSX_NOSLEEP") == "" { // (diagnostic switch: exploration without sleep sets)
		for j := 0; j < i; j++ {
			ex.sleep[ord[j]] = true
		}
	}
	if curEnabled && !yieldy && ord[i] != ex.cur {
		ex.preemptions++
	}
	return ord[i]
}

// detectSpin looks for a repeated global control state with no intervening
// change to the heap, channels or contexts: the goroutines that ran in
// between are on a no-progress cycle.
func (ex *Exec) detectSpin() {
	if ex.sigSeen == nil || ex.sigHeap != ex.heapVersion {
		ex.sigSeen = map[uint64]int{}
		if ex.sigHeap != ex.heapVersion {
			ex.spinResets = 0
		}
		ex.sigHeap = ex.heapVersion
		ex.ranAt = ex.ranAt[:0]
		ex.spinning = nil
	}
	sig := ex.signature()
	if first, ok := ex.sigSeen[sig]; ok {
		if ex.spinning == nil {
			ex.spinning = map[*G]bool{}
		}
		for _, g := range ex.ranAt[first:] {
			if !ex.spinning[g] {
				ex.spinning[g] = true
				ex.notes = append(ex.notes, fmt.Sprintf("g%d spins without progress at %s", g.id, g.stack(2)))
			}
		}
		return
	}
	ex.sigSeen[sig] = len(ex.ranAt)
}

func mix(h uint64, v uint64) uint64 {
	h ^= v + 0x9e3779b97f4a7c15 + (h << 6) + (h >> 2)
	return h
}

func (ex *Exec) signature() uint64 {
	if ex.fnIDs == nil {
		ex.fnIDs = map[*ssa.Function]int{}
	}
	var h uint64 = 1469598103934665603
	for _, g := range ex.gs {
		h = mix(h, uint64(g.id))
		if g.done {
			h = mix(h, 0xdead)
			continue
		}
		if g.pending != nil {
			h = mix(h, uint64(hashString(g.pending.kind)))
			for _, o := range g.pending.objects() {
				h = mix(h, objID(o))
			}
		}
		for f := g.top; f != nil; f = f.caller {
			id, ok := ex.fnIDs[f.fn]
			if !ok {
				id = len(ex.fnIDs) + 1
				ex.fnIDs[f.fn] = id
			}
			h = mix(h, uint64(id))
			if f.block != nil {
				h = mix(h, uint64(f.block.Index)<<16|uint64(f.pc))
			}
		}
		for _, o := range g.held {
			h = mix(h, objID(o)+7)
		}
		var osum uint64
		for _, v := range g.obs {
			osum += mix(31, v)
		}
		h = mix(h, osum)
	}
	// order-independent contribution of the model objects
	var sum uint64
	for _, o := range ex.objs {
		switch o := o.(type) {
		case *Mutex:
			v := uint64(o.id) << 8
			if o.locked {
				v |= 1
			}
			v |= uint64(o.readers) << 1
			sum += mix(17, v)
		case *Cond:
			v := uint64(o.id) << 16
			for i, w := range o.waiters {
				x := uint64(w.g.id+1) << 1
				if w.notified {
					x |= 1
				}
				v = mix(v, x+uint64(i))
			}
			sum += mix(23, v)
		case *WaitGroupM:
			sum += mix(29, uint64(o.id)<<20|uint64(o.n))
		}
	}
	return mix(h, sum)
}

func objID(o interface{}) uint64 {
	switch o := o.(type) {
	case *Mutex:
		return uint64(o.id)
	case *Cond:
		return uint64(o.id)
	case *Chan:
		return uint64(o.id)
	case *CtxNode:
		return uint64(o.id)
	case *WaitGroupM:
		return uint64(o.id)
	case string:
		return uint64(hashString(o))
	}
	return 99
}

func (ex *Exec) deadlock() {
	var sb strings.Builder
	for _, g := range ex.gs {
		if !g.done {
			k := "?"
			if g.pending != nil {
				k = g.pending.kind
			}
			fmt.Fprintf(&sb, "g%d[%s lib=%v] blocked on %s at %s; ", g.id, g.where, g.lib, k, g.stack(3))
		}
	}
	ex.violate(ex.gs[0], "deadlock", "deadlock", sb.String())
}

func (g *G) stack(n int) string {
	var parts []string
	for f := g.top; f != nil && len(parts) < n; f = f.caller {
		parts = append(parts, fmt.Sprintf("%s@%s", shortFn(f.fn), g.pos(instrPos(f.curInstr))))
	}
	return strings.Join(parts, " < ")
}

func shortFn(fn *ssa.Function) string {
	s := fn.String()
	s = strings.ReplaceAll(s, "github.com/tychoish/fun", "fun")
	return s
}

// ---- violations

func decString(ds []Dec) string {
	var sb strings.Builder
	for _, d := range ds {
		switch d.K {
		case 'v':
			fmt.Fprintf(&sb, "v%d:%d ", d.C, d.V)
		default:
			f := ""
			if d.F {
				f = "!"
			}
			fmt.Fprintf(&sb, "%c%d%s ", d.K, d.C, f)
		}
	}
	return strings.TrimSpace(sb.String())
}

func (ex *Exec) inputVals(model map[string]uint64) []InputVal {
	var out []InputVal
	memo := map[int]uint64{}
	for _, in := range ex.inputs {
		iv := InputVal{Name: in.name, Kind: in.kind}
		if in.term != nil {
			iv.bits = ex.tc.Eval(in.term, model, memo)
			iv.sym = true
		} else {
			iv.bits = in.conc
		}
		switch in.kind {
		case "bool":
			iv.Val = fmt.Sprint(iv.bits != 0)
		case "float64":
			iv.Val = fmt.Sprintf("0x%016x", iv.bits)
		case "uint64", "uint":
			iv.Val = fmt.Sprint(iv.bits)
		case "int8":
			iv.Val = fmt.Sprint(int8(iv.bits))
		case "int32":
			iv.Val = fmt.Sprint(int32(iv.bits))
		default:
			iv.Val = fmt.Sprint(int64(iv.bits))
		}
		out = append(out, iv)
	}
	return out
}

func (ex *Exec) violate(g *G, kind, label, detail string) {
	var model map[string]uint64
	v, m := ex.solver.Check(ex.pc, nil, true)
	if v == Unsat {
		return // path infeasible after all
	}
	model = m
	if model == nil {
		model = map[string]uint64{}
	}
	ex.addViolation(kind, label, detail, model)
}

func (ex *Exec) addViolation(kind, label, detail string, model map[string]uint64) {
	vio := &Violation{Label: label, Kind: kind, Detail: detail, Model: model, Entry: ex.entry.Name()}
	vio.Inputs = ex.inputVals(model)
	vio.Decs = append([]Dec(nil), ex.trace...)
	vio.DecStr = decString(vio.Decs)
	vio.Notes = append([]string(nil), ex.notes...)
	vio.Order = append([]int(nil), ex.clientOrder...)
	if n := len(ex.schedTrace); n > 0 {
		lo := 0
		if n > 3000 {
			lo = n - 3000
		}
		vio.Trace = append([]string(nil), ex.schedTrace[lo:]...)
	}
	vio.Sig = ex.entry.Name() + "/" + label
	ex.res.Violations = append(ex.res.Violations, vio)
	ex.res.Status = "violation"
}

// Run executes one path.
func (ex *Exec) Run() {
	ex.tc = NewTermCtx()
	ex.preemptBound = ex.cfg.Preempt
	ex.solver.Reset(ex.tc)
	ex.known = map[int]bool{}
	ex.sleep = map[*G]bool{}
	ex.globals = map[*ssa.Global]*value{}
	ex.yield = make(chan *G)
	ex.fns = map[*ssa.Function]bool{}
	ex.seq = map[string]int{}
	ex.res.Reach = map[string]bool{}
	if ex.cfg.Race {
		ex.mon = newMonitor(ex)
	}
	boot := nativeFn(func(g *G, fr *frame, args []value) value {
		ex.prog.runInits(g)
		if ex.mon != nil {
			ex.mon.reset()
		}
		call(g, nil, 0, ex.entry, nil)
		return nil
	})
	ex.spawn(nil, boot, nil, false, "main")
	ex.schedule()
	if ex.res.Status == "" {
		ex.res.Status = "ok"
	}
	ex.res.Decs = ex.trace
	ex.res.Steps = ex.steps
	ex.res.Fns = ex.fns
	ex.res.Notes = ex.notes
}

// ---- driver

type RunStats struct {
	Paths        int64
	ByStatus     map[string]int64
	Obligations  int64
	Discharged   int64
	SchedPoints  int64
	MaxDecisions int
	Steps        int64
}

type EntryResult struct {
	Entry      string
	Stats      RunStats
	Violations []*Violation
	Reach      map[string]int64
	Inconcl    []string
	Fns        map[*ssa.Function]bool
	Samples    []string
	Wall       float64
	Errors     []string
}

// runEntry explores the entry; if the exploration discovers a channel that is
// the target of a non-blocking send (see arrivalSites) it is restarted, because
// paths explored before the discovery used the coarser receive transitions.
func runEntry(prog *Program, entry *ssa.Function, cfg Config, fixed map[string]uint64, prefix []Dec) *EntryResult {
	for round := 0; ; round++ {
		if fixed == nil {
			arrivalMerge() // no worker is running here
		}
		before := atomic.LoadInt64(&arrivalNew)
		er := runEntryOnce(prog, entry, cfg, fixed, prefix, before)
		if fixed != nil || round >= 4 || atomic.LoadInt64(&arrivalNew) == before {
			sites := arrivalSiteList()
			for _, v := range er.Violations {
				v.Arrival = sites
			}
			return er
		}
	}
}

func runEntryOnce(prog *Program, entry *ssa.Function, cfg Config, fixed map[string]uint64, prefix []Dec, arrivalsBefore int64) *EntryResult {
	t0 := time.Now()
	work := NewWorkList()
	work.Push(prefix)
	er := &EntryResult{Entry: entry.Name(), Reach: map[string]int64{}, Fns: map[*ssa.Function]bool{}}
	er.Stats.ByStatus = map[string]int64{}
	var mu sync.Mutex
	var wg sync.WaitGroup
	var paths int64
	sigSeen := map[string]int{}
	nw := cfg.Workers
	if fixed != nil {
		nw = 1
	}
	stopProg := make(chan struct{})
	if os.Getenv("FSX_PROGRESS") != "" {
		go func() {
			tk := time.NewTicker(10 * time.Second)
			defer tk.Stop()
			for {
				select {
				case <-stopProg:
					return
				case <-tk.C:
					mu.Lock()
					work.mu.Lock()
					fmt.Fprintf(os.Stderr, "[progress %s] paths=%d status=%v queue=%d queries=%d t=%.0fs\n", entry.Name(), er.Stats.Paths, er.Stats.ByStatus, len(work.items), atomic.LoadInt64(&gStats.Queries), time.Since(t0).Seconds())
					work.mu.Unlock()
					mu.Unlock()
				}
			}
		}()
	}
	defer close(stopProg)
	for w := 0; w < nw; w++ {
		wg.Add(1)
		go func() {
			defer wg.Done()
			solver := NewSolver()
			defer solver.Close()
			for {
				p, ok := work.Pop()
				if !ok {
					return
				}
				if atomic.AddInt64(&paths, 1) > cfg.MaxPaths {
					mu.Lock()
					er.Inconcl = append(er.Inconcl, "budget: path bound reached")
					mu.Unlock()
					work.Done()
					work.Close()
					return
				}
				if fixed == nil && atomic.LoadInt64(&arrivalNew) != arrivalsBefore {
					// a new arrival-sensitive channel was discovered: this
					// exploration is abandoned and restarted (runEntry)
					work.Done()
					work.Close()
					return
				}
				ex := &Exec{prog: prog, cfg: &cfg, entry: entry, solver: solver, work: work, prefix: p, fixed: fixed}
				func() {
					// an internal error of the engine on one path is reported as
					// an error of the check (exit 3), it must not take the process down
					defer func() {
						if r := recover(); r != nil {
							ex.res.Status = "error"
							if ee, ok := r.(engineError); ok {
								ex.res.Detail = ee.msg
							} else {
								ex.res.Detail = fmt.Sprint(r)
							}
						}
					}()
					ex.Run()
				}()
				mu.Lock()
				er.Stats.Paths++
				er.Stats.ByStatus[ex.res.Status]++
				er.Stats.Obligations += int64(ex.res.Obligations)
				er.Stats.Discharged += int64(ex.res.Discharged)
				er.Stats.SchedPoints += int64(ex.res.Sched)
				er.Stats.Steps += ex.res.Steps
				if len(ex.res.Decs) > er.Stats.MaxDecisions {
					er.Stats.MaxDecisions = len(ex.res.Decs)
				}
				for k := range ex.res.Reach {
					er.Reach[k]++
				}
				for f := range ex.res.Fns {
					er.Fns[f] = true
				}
				for _, v := range ex.res.Violations {
					sigSeen[v.Sig]++
					if sigSeen[v.Sig] <= 3 {
						er.Violations = append(er.Violations, v)
					}
				}
				switch ex.res.Status {
				case "ok", "violation", "infeasible", "done", "pruned":
				case "error":
					er.Errors = append(er.Errors, ex.res.Detail)
				default:
					if len(er.Inconcl) < 20 {
						er.Inconcl = append(er.Inconcl, ex.res.Status+": "+ex.res.Detail+" ["+decString(ex.res.Decs)+"]")
					}
				}
				for _, s := range ex.res.Inconclusive {
					if len(er.Inconcl) < 20 {
						er.Inconcl = append(er.Inconcl, s)
					}
				}
				if len(er.Samples) < 3 && ex.res.Status == "ok" && len(ex.res.Decs) > 0 {
					er.Samples = append(er.Samples, decString(ex.res.Decs))
				}
				stop := cfg.StopOnFirst && len(er.Violations) > 0
				mu.Unlock()
				work.Done()
				if stop {
					work.Close()
					return
				}
			}
		}()
	}
	wg.Wait()
	sort.Slice(er.Violations, func(i, j int) bool { return er.Violations[i].Sig < er.Violations[j].Sig })
	er.Wall = time.Since(t0).Seconds()
	return er
}
