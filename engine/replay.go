package main

// Counterexample replay: (1) concrete re-interpretation in the engine,
// (2) native run of the same harness against the real build via go test
// -overlay (nothing is written into /repo).

import (
	"bytes"
	"crypto/sha1"
	"encoding/json"
	"fmt"
	"golang.org/x/tools/go/ssa"
	"golang.org/x/tools/go/ssa/ssautil"
	"os"
	"os/exec"
	"path/filepath"
	"strings"
	"time"
)

type replayFile struct {
	Property string            `json:"property"`
	Entry    string            `json:"entry"`
	Label    string            `json:"label"`
	Kind     string            `json:"kind"`
	Detail   string            `json:"detail"`
	Pkgs     []string          `json:"pkgs"`
	Vector   map[string]uint64 `json:"vector"`
	Decs     []Dec             `json:"decisions"`
	Inputs   []InputVal        `json:"inputs"`
	Trace    []string          `json:"trace,omitempty"`
	Notes    []string          `json:"notes,omitempty"`
	Status   string            `json:"status"`
	Preempt  int               `json:"preempt"`
	Tier     string            `json:"tier"`
	Arrival  []string          `json:"arrival_sensitive_channel_sites,omitempty"`
}

func concretePrefix(decs []Dec) []Dec {
	var out []Dec
	for _, d := range decs {
		if d.K == 's' || d.K == 'i' {
			out = append(out, d)
		}
	}
	return out
}

func vectorOf(v *Violation) map[string]uint64 {
	m := map[string]uint64{}
	for _, in := range v.Inputs {
		m[in.Name] = in.bits
	}
	m["in___norder_0"] = uint64(len(v.Order))
	for i, c := range v.Order {
		m[fmt.Sprintf("in___order_%d", i)] = uint64(c)
	}
	return m
}

func replayViolation(prog *Program, spec *PropSpec, v *Violation, skipNative bool) (string, string) {
	h := sha1.Sum([]byte(v.Sig + v.DecStr + inputsString(v.Inputs)))
	dir := filepath.Join(verifDir, "replays", spec.ID, fmt.Sprintf("%x", h[:6]))
	os.MkdirAll(dir, 0o755)
	rf := replayFile{Property: spec.ID, Entry: v.Entry, Label: v.Label, Kind: v.Kind, Detail: v.Detail, Pkgs: spec.Pkgs,
		Vector: vectorOf(v), Decs: v.Decs, Inputs: v.Inputs, Trace: v.Trace, Notes: v.Notes, Tier: curTier(), Arrival: v.Arrival}
	status := doReplay(prog, spec, &rf, dir, skipNative)
	rf.Status = status
	b, _ := json.MarshalIndent(rf, "", " ")
	os.WriteFile(filepath.Join(dir, "violation.json"), b, 0o644)
	return dir, status
}

func doReplay(prog *Program, spec *PropSpec, rf *replayFile, dir string, skipNative bool) string {
	// exactly the sites that were in force when the counterexample was found
	arrivalSet(rf.Arrival)
	entry := prog.findEntry(rf.Entry)
	if entry == nil {
		return "ERROR entry-not-found"
	}
	// 1. concrete re-interpretation
	cfg := defaultConfig()
	tier := rf.Tier
	if tier == "" {
		tier = "quick"
	}
	gThorough = tier == "thorough"
	spec.configure(&cfg, tier, rf.Entry)
	cfg.Workers = 1
	cfg.MaxPaths = 1
	er := runEntry(prog, entry, cfg, rf.Vector, concretePrefix(rf.Decs))
	found := false
	for _, cv := range er.Violations {
		if cv.Label == rf.Label {
			found = true
			rf.Trace = cv.Trace
		}
	}
	if !found {
		det := ""
		if len(er.Errors) > 0 {
			det = firstLine(er.Errors[0])
		}
		for _, cv := range er.Violations {
			det += " got:" + cv.Label
		}
		return "ERROR engine-replay-mismatch " + det
	}
	if skipNative {
		return "interp=reproduced native=skipped"
	}
	// 2. native
	sched := false
	for _, d := range rf.Decs {
		if d.K == 's' {
			sched = true
		}
	}
	out, ok := nativeRun(prog, spec, rf, dir, sched)
	os.WriteFile(filepath.Join(dir, "native.log"), []byte(out), 0o644)
	if ok {
		return "interp=reproduced native=reproduced"
	}
	if sched {
		return "interp=reproduced native=not-forced"
	}
	for _, n := range rf.Notes {
		if strings.HasPrefix(n, "contract-stub:") {
			return "interp=reproduced native=not-reproducible-at-this-size (" + n + ")"
		}
	}
	return "ERROR native-replay-mismatch (see " + filepath.Join(dir, "native.log") + ")"
}

// nativeRun compiles the harness natively (overlay) and runs the entry with
// the input vector. Returns the output and whether the violation reproduced.
func nativeRun(prog *Program, spec *PropSpec, rf *replayFile, dir string, sched bool) (string, bool) {
	ov, _, err := harnessOverlay(spec.Pkgs, true, prog.skippedOpt == "")
	if err != nil {
		return err.Error(), false
	}
	// which package holds the entry?
	var pkgRel, pkgName string
	for _, rp := range spec.Pkgs {
		hdir := filepath.Join(verifDir, "harness", rp)
		if rp == "." {
			hdir = filepath.Join(verifDir, "harness", "root")
		}
		ents, _ := os.ReadDir(hdir)
		for _, e := range ents {
			b, _ := os.ReadFile(filepath.Join(hdir, e.Name()))
			if bytes.Contains(b, []byte("func "+rf.Entry+"(")) {
				pkgRel = rp
			}
		}
	}
	if pkgRel == "" {
		return "entry package not found", false
	}
	pkgName, _ = packageName(filepath.Join(repoDir, pkgRel))
	test := fmt.Sprintf("package %s\n\nimport \"testing\"\n\nfunc TestVReplay(t *testing.T) { %s() }\n", pkgName, rf.Entry)
	repl := map[string]string{}
	od := filepath.Join(dir, "overlay")
	os.MkdirAll(od, 0o755)
	i := 0
	for vp, src := range ov {
		if filepath.Dir(vp) != filepath.Join(repoDir, pkgRel) {
			continue
		}
		real := filepath.Join(od, fmt.Sprintf("f%d_%s", i, filepath.Base(vp)))
		i++
		os.WriteFile(real, src, 0o644)
		repl[vp] = real
	}
	if sched {
		// virtual hooks: widen the window before every (*sync.Cond).Wait in the
		// packages under test (instrumented copies of the current source, overlay only)
		for file, lines := range condWaitLines(prog, spec) {
			src, err := os.ReadFile(file)
			if err != nil {
				continue
			}
			ls := strings.Split(string(src), "\n")
			for _, ln := range lines {
				if ln-1 < len(ls) {
					l := ls[ln-1]
					trim := strings.TrimLeft(l, " \t")
					ls[ln-1] = l[:len(l)-len(trim)] + "vfWindow(); " + trim
				}
			}
			real := filepath.Join(od, fmt.Sprintf("w%d_%s", i, filepath.Base(file)))
			i++
			os.WriteFile(real, []byte(strings.Join(ls, "\n")), 0o644)
			repl[file] = real
		}
	}
	tf := filepath.Join(od, "zz_verif_replay_test.go")
	os.WriteFile(tf, []byte(test), 0o644)
	repl[filepath.Join(repoDir, pkgRel, "zz_verif_replay_test.go")] = tf
	ovj, _ := json.Marshal(map[string]interface{}{"Replace": repl})
	ovp := filepath.Join(dir, "overlay.json")
	os.WriteFile(ovp, ovj, 0o644)
	vec, _ := json.Marshal(rf.Vector)
	vp := filepath.Join(dir, "vector.json")
	os.WriteFile(vp, vec, 0o644)

	count := "1"
	if sched {
		count = "30"
	}
	p := "."
	if pkgRel != "." {
		p = "./" + pkgRel
	}
	cmd := exec.Command("go", "test", "-vet=off", "-count="+count, "-timeout", "30s", "-overlay", ovp, "-run", "^TestVReplay$", p)
	cmd.Dir = repoDir
	cmd.Env = append(os.Environ(), "GOFLAGS=-mod=mod", "GOPROXY=off", "GOSUMDB=off", "GOTOOLCHAIN=local", "VF_VECTOR="+vp)
	if gThorough {
		cmd.Env = append(cmd.Env, "VF_THOROUGH=1")
	}
	var out bytes.Buffer
	cmd.Stdout = &out
	cmd.Stderr = &out
	done := make(chan error, 1)
	cmd.Start()
	go func() { done <- cmd.Wait() }()
	select {
	case <-done:
	case <-time.After(150 * time.Second):
		cmd.Process.Kill()
		<-done
	}
	s := out.String()
	os.WriteFile(filepath.Join(dir, "replay.sh"), []byte(fmt.Sprintf("#!/bin/sh\ncd %s && VF_VECTOR=%s GOFLAGS=-mod=mod go test -vet=off -count=%s -timeout 30s -overlay %s -run '^TestVReplay$' %s\n", repoDir, vp, count, ovp, p)), 0o755)
	switch rf.Kind {
	case "assert":
		return s, strings.Contains(s, "VF-VIOLATION "+rf.Label)
	case "panic":
		return s, strings.Contains(s, "panic:") && !strings.Contains(s, "test timed out")
	case "deadlock":
		return s, strings.Contains(s, "test timed out") || strings.Contains(s, "all goroutines are asleep")
	case "race":
		return s, false
	}
	return s, false
}

func cmdReplay(args []string) int {
	if len(args) < 1 {
		usage()
	}
	dir := args[0]
	b, err := os.ReadFile(filepath.Join(dir, "violation.json"))
	if err != nil {
		fmt.Fprintln(os.Stderr, err)
		return 3
	}
	var rf replayFile
	if err := json.Unmarshal(b, &rf); err != nil {
		fmt.Fprintln(os.Stderr, err)
		return 3
	}
	spec := findSpec(rf.Property)
	if spec == nil {
		fmt.Fprintln(os.Stderr, "unknown property", rf.Property)
		return 3
	}
	prog, err := loadProgram(spec.Pkgs)
	if err != nil {
		fmt.Fprintln(os.Stderr, err)
		return 3
	}
	status := doReplay(prog, spec, &rf, dir, false)
	fmt.Printf("replay %s: %s\n", dir, status)
	fmt.Printf("  entry=%s label=%s kind=%s\n  detail: %s\n  inputs: %s\n", rf.Entry, rf.Label, rf.Kind, rf.Detail, inputsString(rf.Inputs))
	for _, t := range rf.Trace {
		fmt.Println("  ", t)
	}
	if strings.Contains(status, "interp=reproduced") {
		return 1
	}
	return 0
}

func curTier() string {
	if gThorough {
		return "thorough"
	}
	return "quick"
}

// condWaitLines finds the source lines that call (*sync.Cond).Wait in the
// packages of spec (from the SSA of the current tree).
func condWaitLines(prog *Program, spec *PropSpec) map[string][]int {
	out := map[string][]int{}
	seen := map[string]bool{}
	dirs := map[string]bool{}
	for _, rp := range spec.Pkgs {
		dirs[filepath.Join(repoDir, rp)] = true
	}
	for fn := range ssautil.AllFunctions(prog.prog) {
		if fn.Pkg == nil || !strings.HasPrefix(fn.Pkg.Pkg.Path(), modulePath) {
			continue
		}
		for _, b := range fn.Blocks {
			for _, in := range b.Instrs {
				c, ok := in.(*ssa.Call)
				if !ok {
					continue
				}
				callee := c.Call.StaticCallee()
				if callee == nil || callee.String() != "(*sync.Cond).Wait" {
					continue
				}
				ps := prog.fset.Position(c.Pos())
				if !dirs[filepath.Dir(ps.Filename)] || strings.HasPrefix(filepath.Base(ps.Filename), "zz_verif_") {
					continue
				}
				k := fmt.Sprintf("%s:%d", ps.Filename, ps.Line)
				if !seen[k] {
					seen[k] = true
					out[ps.Filename] = append(out[ps.Filename], ps.Line)
				}
			}
		}
	}
	return out
}
