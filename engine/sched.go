package main

// Models of the Go runtime's concurrency objects: channels, select, mutexes,
// condition variables, WaitGroup, atomics, contexts. Each blocking operation
// is a "visible operation": the goroutine yields to the scheduler first and
// performs the operation atomically when it is scheduled and enabled.

import (
	"fmt"
	"go/types"
	"strings"
	"sync"
	"sync/atomic"

	"golang.org/x/tools/go/ssa"
)

// ---- channels

type chanMsg struct {
	v  value
	vc []int
}

type Chan struct {
	id      int
	cap     int
	buf     []chanMsg
	closed  bool
	closeVC []int
	recvVC  []int
	site    string // creation site file:line:col relative to the repo ("" for context Done channels)
}

// Channels that are the target of a non-blocking send (a select with a send
// case and a default) are "arrival sensitive": whether the send succeeds
// depends on a receiver having parked already, so parking on such a channel is
// made a transition of its own (recvArrive). The set of creation sites is
// discovered while an entry runs; finding a new one restarts the entry's
// exploration with the enlarged set (runEntry).
// The set in force is frozen while an exploration round runs (every execution
// of the round, including re-executions of recorded prefixes, must see the same
// transitions); discoveries go to a pending set that runEntry merges between
// rounds.
var arrivalActive atomic.Value // map[string]bool, replaced wholesale between rounds
var arrivalPending sync.Map    // creation site -> bool
var arrivalNew int64

func arrivalActiveSet() map[string]bool {
	if m, ok := arrivalActive.Load().(map[string]bool); ok {
		return m
	}
	return nil
}

func arrivalSensitive(c *Chan) bool {
	if c == nil || c.site == "" {
		return false
	}
	return arrivalActiveSet()[c.site]
}

func markArrivalSensitive(c *Chan) {
	if c == nil || c.site == "" || arrivalActiveSet()[c.site] {
		return
	}
	if _, loaded := arrivalPending.LoadOrStore(c.site, true); !loaded {
		atomic.AddInt64(&arrivalNew, 1)
	}
}

// arrivalMerge moves the pending discoveries into the set in force. Called only
// while no exploration worker is running.
func arrivalMerge() {
	n := map[string]bool{}
	for k := range arrivalActiveSet() {
		n[k] = true
	}
	arrivalPending.Range(func(k, _ interface{}) bool {
		n[k.(string)] = true
		arrivalPending.Delete(k)
		return true
	})
	arrivalActive.Store(n)
}

// arrivalSet replaces the set in force (replay of a recorded counterexample).
func arrivalSet(sites []string) {
	n := map[string]bool{}
	for _, s := range sites {
		n[s] = true
	}
	arrivalPending.Range(func(k, _ interface{}) bool { arrivalPending.Delete(k); return true })
	arrivalActive.Store(n)
}

func (ex *Exec) newChan(capacity int) *Chan {
	ex.nextObj++
	return &Chan{id: ex.nextObj, cap: capacity}
}

// pending receivers on ch (goroutines parked in recv or select with a recv case)
func (ex *Exec) pendingReceivers(ch *Chan, self *G) []*G {
	var out []*G
	for _, g := range ex.gs {
		if g == self || g.done || g.pending == nil || g.handed {
			continue
		}
		for _, c := range g.pendingRecvChans() {
			if c == ch {
				out = append(out, g)
				break
			}
		}
	}
	return out
}

type recvSet struct {
	chans []*Chan
	cases []int
}

func (g *G) pendingRecvChans() []*Chan {
	if rs, ok := g.pending.obj.(*recvSet); ok {
		return rs.chans
	}
	return nil
}

func (g *G) canSend(ch *Chan) bool {
	if ch == nil {
		return false
	}
	// a full buffered channel is not sendable even if a receiver is about to
	// run: the receiver has to take an element out first
	return ch.closed || len(ch.buf) < ch.cap || (len(ch.buf) == 0 && len(g.ex.pendingReceivers(ch, g)) > 0)
}

func canRecv(ch *Chan) bool {
	return ch != nil && (len(ch.buf) > 0 || ch.closed)
}

func (g *G) doSend(ch *Chan, v value) {
	ex := g.ex
	ex.heapVersion++
	if ch.closed {
		panic(targetPanic{v: iface{t: ex.prog.runtimeErrorString, v: "send on closed channel"}, msg: "send on closed channel"})
	}
	var vc []int
	if ex.mon != nil {
		vc = ex.mon.releaseVC(g)
	}
	// a parked receiver and an empty buffer: hand over directly
	if len(ch.buf) == 0 {
		if rs := ex.pendingReceivers(ch, g); len(rs) > 0 {
			r := rs[0]
			if len(rs) > 1 {
				r = rs[ex.choose('i', len(rs))]
			}
			r.recvVal, r.recvOk, r.handed = v, true, true
			if set, ok := r.pending.obj.(*recvSet); ok {
				for i, c := range set.chans {
					if c == ch {
						r.selIdx = set.cases[i]
						break
					}
				}
			}
			if ex.mon != nil {
				ex.mon.acquireVC(r, vc)
				// unbuffered: the receive also happens-before the send completes
				if ch.cap == 0 {
					ex.mon.acquireVC(g, ex.mon.releaseVC(r))
				}
			}
			r.pending = &pendOp{kind: "handed", enabled: alwaysEnabled}
			return
		}
	}
	if len(ch.buf) >= ch.cap {
		panic(engineError{"doSend on full channel without receiver"})
	}
	ch.buf = append(ch.buf, chanMsg{v: v, vc: vc})
}

func (g *G) doRecv(ch *Chan) (value, bool) {
	ex := g.ex
	ex.heapVersion++
	if len(ch.buf) > 0 {
		m := ch.buf[0]
		ch.buf = ch.buf[1:]
		if ex.mon != nil {
			ex.mon.acquireVC(g, m.vc)
		}
		return m.v, true
	}
	if ch.closed {
		if ex.mon != nil {
			ex.mon.acquireVC(g, ch.closeVC)
		}
		return nil, false
	}
	panic(engineError{"doRecv on empty open channel"})
}

func (g *G) chanSend(ch *Chan, v value) {
	g.visible(&pendOp{kind: "send", obj: ch, enabled: func() bool { return g.canSend(ch) }})
	g.trace("send ch%d", chid(ch))
	g.doSend(ch, v)
}

func chid(ch *Chan) int {
	if ch == nil {
		return 0
	}
	return ch.id
}

// A goroutine becomes a parked receiver (which is what enables unbuffered
// senders, and what a non-blocking send looks for) only by a transition of
// its own: "arriving" at the receive is a visible operation on the channel.
// Without it, registering as a receiver would be a side effect of whatever
// transition came before (a goroutine start, say), invisible to the
// partial-order reduction.
func (g *G) recvArrive(chans []*Chan) {
	var objs []interface{}
	for _, c := range chans {
		if c != nil && arrivalSensitive(c) {
			objs = append(objs, c)
		}
	}
	if len(objs) == 0 {
		return
	}
	g.visible(&pendOp{kind: "recv-arrive", extra: objs, enabled: alwaysEnabled})
	g.trace("recv-arrive")
}

func (g *G) chanRecv(ch *Chan) (value, bool) {
	g.handed = false
	if ch != nil && !canRecv(ch) {
		g.recvArrive([]*Chan{ch})
	}
	g.visible(&pendOp{kind: "recv", obj: &recvSet{chans: []*Chan{ch}, cases: []int{0}}, enabled: func() bool { return g.handed || canRecv(ch) }})
	g.trace("recv ch%d", chid(ch))
	if g.handed {
		g.handed = false
		v := g.recvVal
		g.recvVal = nil
		return v, true
	}
	return g.doRecv(ch)
}

func (g *G) chanClose(ch *Chan) {
	g.visible(&pendOp{kind: "close", obj: ch, enabled: alwaysEnabled})
	g.trace("close ch%d", chid(ch))
	if ch == nil {
		panic(targetPanic{v: iface{t: g.ex.prog.runtimeErrorString, v: "close of nil channel"}, msg: "close of nil channel"})
	}
	if ch.closed {
		panic(targetPanic{v: iface{t: g.ex.prog.runtimeErrorString, v: "close of closed channel"}, msg: "close of closed channel"})
	}
	ch.closed = true
	g.ex.heapVersion++
	if g.ex.mon != nil {
		ch.closeVC = g.ex.mon.releaseVC(g)
	}
}

func (g *G) chanLen(ch *Chan) int {
	if ch == nil {
		return 0
	}
	g.visible(&pendOp{kind: "chanlen", obj: ch, ro: true, enabled: alwaysEnabled})
	return len(ch.buf)
}

func (g *G) selectOp(fr *frame, instr *ssa.Select) value {
	ex := g.ex
	type scase struct {
		ch   *Chan
		send bool
		v    value
	}
	cases := make([]scase, len(instr.States))
	set := &recvSet{}
	for i, st := range instr.States {
		c := scase{ch: fr.get(st.Chan).(*Chan)}
		if st.Dir == types.SendOnly {
			c.send = true
			c.v = copyVal(fr.get(st.Send))
		} else if c.ch != nil {
			set.chans = append(set.chans, c.ch)
			set.cases = append(set.cases, i)
		}
		cases[i] = c
	}
	ready := func() []int {
		var r []int
		for i, c := range cases {
			if c.ch == nil {
				continue
			}
			if c.send {
				if g.canSend(c.ch) {
					r = append(r, i)
				}
			} else if canRecv(c.ch) {
				r = append(r, i)
			}
		}
		return r
	}
	g.handed = false
	if !instr.Blocking {
		for _, c := range cases {
			if c.send {
				markArrivalSensitive(c.ch)
			}
		}
	}
	if instr.Blocking && len(set.chans) > 0 && len(ready()) == 0 {
		g.recvArrive(set.chans)
	}
	var sendChans []interface{}
	for _, c := range cases {
		if c.send && c.ch != nil {
			sendChans = append(sendChans, c.ch)
		}
	}
	g.visible(&pendOp{kind: "select", obj: set, extra: sendChans, enabled: func() bool {
		return g.handed || !instr.Blocking || len(ready()) > 0
	}})
	chosen := -1
	var recv value
	recvOk := false
	if g.handed {
		g.handed = false
		chosen = g.selIdx
		recv, recvOk = g.recvVal, true
		g.recvVal = nil
	} else {
		r := ready()
		if len(r) > 0 {
			chosen = r[0]
			if len(r) > 1 {
				chosen = r[ex.choose('i', len(r))]
			}
			c := cases[chosen]
			if c.send {
				g.doSend(c.ch, c.v)
			} else {
				recv, recvOk = g.doRecv(c.ch)
			}
		} else if instr.Blocking {
			panic(engineError{"blocking select scheduled with no ready case"})
		}
	}
	g.trace("select -> case %d", chosen)
	r := tuple{chosen, recvOk}
	for i, st := range instr.States {
		if st.Dir == types.RecvOnly {
			var v value
			if i == chosen && recvOk {
				v = recv
			} else {
				v = zero(st.Chan.Type().Underlying().(*types.Chan).Elem())
			}
			r = append(r, v)
		}
	}
	return r
}

func (g *G) trace(format string, args ...interface{}) {
	ex := g.ex
	if len(ex.gs) <= 1 {
		return
	}
	ex.schedTrace = append(ex.schedTrace, fmt.Sprintf("g%d %s @%s", g.id, fmt.Sprintf(format, args...), g.stack(2)))
}

// ---- objects keyed by the address of the interpreted struct

type objTable map[*value]interface{}

func (ex *Exec) obj(p *value, mk func() interface{}) interface{} {
	if ex.objs == nil {
		ex.objs = objTable{}
	}
	if o, ok := ex.objs[p]; ok {
		return o
	}
	o := mk()
	ex.objs[p] = o
	return o
}

// ---- mutex / rwmutex

type Mutex struct {
	id      int
	locked  bool
	owner   *G
	readers int
	rel     []int
}

func (ex *Exec) mutexAt(p *value) *Mutex {
	return ex.obj(p, func() interface{} { ex.nextObj++; return &Mutex{id: ex.nextObj} }).(*Mutex)
}

func (g *G) lock(m *Mutex) {
	g.visible(&pendOp{kind: "lock", obj: m, enabled: func() bool { return !m.locked && m.readers == 0 }})
	g.trace("lock m%d", m.id)
	m.locked = true
	m.owner = g
	g.held = append(g.held, m)
	if g.ex.mon != nil {
		g.ex.mon.acquireVC(g, m.rel)
	}
}

func (g *G) tryLock(m *Mutex) bool {
	g.visible(&pendOp{kind: "trylock", obj: m, enabled: alwaysEnabled})
	if m.locked || m.readers > 0 {
		return false
	}
	m.locked = true
	m.owner = g
	g.held = append(g.held, m)
	if g.ex.mon != nil {
		g.ex.mon.acquireVC(g, m.rel)
	}
	return true
}

func (g *G) unlock(m *Mutex) {
	if !m.locked {
		panic(targetPanic{v: iface{t: g.ex.prog.runtimeErrorString, v: "sync: unlock of unlocked mutex"}, msg: "fatal error: sync: unlock of unlocked mutex"})
	}
	g.trace("unlock m%d", m.id)
	g.ex.touch(m, false)
	m.locked = false
	m.owner = nil
	g.dropHeld(m)
	if g.ex.mon != nil {
		m.rel = g.ex.mon.joinVC(m.rel, g.ex.mon.releaseVC(g))
	}
}

func (g *G) dropHeld(m interface{}) {
	for i := len(g.held) - 1; i >= 0; i-- {
		if g.held[i] == m {
			g.held = append(g.held[:i], g.held[i+1:]...)
			return
		}
	}
}

func (g *G) rlock(m *Mutex) {
	g.visible(&pendOp{kind: "rlock", obj: m, enabled: func() bool { return !m.locked }})
	g.trace("rlock m%d", m.id)
	m.readers++
	g.held = append(g.held, m)
	if g.ex.mon != nil {
		g.ex.mon.acquireVC(g, m.rel)
	}
}

func (g *G) runlock(m *Mutex) {
	if m.readers <= 0 {
		panic(targetPanic{v: iface{t: g.ex.prog.runtimeErrorString, v: "sync: RUnlock of unlocked RWMutex"}, msg: "fatal error: sync: RUnlock of unlocked RWMutex"})
	}
	m.readers--
	g.ex.touch(m, false)
	g.dropHeld(m)
	if g.ex.mon != nil {
		m.rel = g.ex.mon.joinVC(m.rel, g.ex.mon.releaseVC(g))
	}
}

// ---- cond

type condTicket struct {
	g        *G
	notified bool
}

type Cond struct {
	id      int
	waiters []*condTicket
}

func (ex *Exec) condAt(p *value) *Cond {
	return ex.obj(p, func() interface{} { ex.nextObj++; return &Cond{id: ex.nextObj} }).(*Cond)
}

// ---- waitgroup (sync.WaitGroup)

type WaitGroupM struct {
	id  int
	n   int64
	rel []int
}

func (ex *Exec) wgAt(p *value) *WaitGroupM {
	return ex.obj(p, func() interface{} { ex.nextObj++; return &WaitGroupM{id: ex.nextObj} }).(*WaitGroupM)
}

// ---- atomics: the cell itself lives in interpreted memory; the side object
// only carries the release clock.

type atomicCell struct {
	rel []int
	val value // for atomic.Value / atomic.Pointer
	set bool
	typ types.Type
}

func (ex *Exec) atomicAt(p *value) *atomicCell {
	return ex.obj(p, func() interface{} { return &atomicCell{} }).(*atomicCell)
}

func (g *G) atomicOp(p *value, kind string) *atomicCell {
	if p == nil {
		rtPanic(g, "invalid memory address or nil pointer dereference")
	}
	a := g.ex.atomicAt(p)
	g.visible(&pendOp{kind: "atomic." + kind, obj: a, ro: kind == "load" || strings.HasSuffix(kind, ".Load"), enabled: alwaysEnabled})
	g.trace("atomic.%s", kind)
	if g.ex.mon != nil {
		g.ex.mon.acquireVC(g, a.rel)
		a.rel = g.ex.mon.joinVC(a.rel, g.ex.mon.releaseVC(g))
	}
	return a
}

// ---- context

type CtxNode struct {
	id        int
	parent    *CtxNode
	children  []*CtxNode
	done      *Chan
	err       value // iface (error) or nil
	key, val  value
	canCancel bool
	deadline  bool
	rel       []int
}

func (n *CtxNode) method(name string) nativeFn {
	switch name {
	case "Done":
		return func(g *G, fr *frame, args []value) value {
			c := args[0].(*CtxNode)
			return c.doneChan(g.ex)
		}
	case "Err":
		return func(g *G, fr *frame, args []value) value {
			c := args[0].(*CtxNode)
			g.visible(&pendOp{kind: "ctx.Err", obj: ctxObj(c), ro: true, enabled: alwaysEnabled})
			cn := c.cancelNode()
			if cn == nil || cn.err == nil {
				return iface{}
			}
			if g.ex.mon != nil {
				g.ex.mon.acquireVC(g, cn.rel)
			}
			return cn.err
		}
	case "Value":
		return func(g *G, fr *frame, args []value) value {
			c := args[0].(*CtxNode)
			k := args[1]
			for n := c; n != nil; n = n.parent {
				if n.key != nil {
					ki := n.key.(iface)
					if ki.t != nil && sameType(ki.t, k.(iface).t) && types.Comparable(ki.t) && equals(ki.t, ki.v, k.(iface).v) {
						return n.val
					}
				}
			}
			return iface{}
		}
	case "Deadline":
		return func(g *G, fr *frame, args []value) value {
			return tuple{zero(g.ex.prog.timeTime), false}
		}
	}
	return nil
}

// cancelNode returns the nearest node (self or ancestor) that carries
// cancellation state.
func (n *CtxNode) cancelNode() *CtxNode {
	for c := n; c != nil; c = c.parent {
		if c.canCancel {
			return c
		}
	}
	return nil
}

func (n *CtxNode) doneChan(ex *Exec) *Chan {
	cn := n.cancelNode()
	if cn == nil {
		return nil
	}
	if cn.done == nil {
		cn.done = ex.newChan(0)
		if cn.err != nil {
			cn.done.closed = true
			cn.done.closeVC = cn.rel
		}
	}
	return cn.done
}

func (ex *Exec) newCtx(parent *CtxNode, cancelable bool) *CtxNode {
	ex.nextObj++
	n := &CtxNode{id: ex.nextObj, parent: parent, canCancel: cancelable}
	if parent != nil {
		parent.children = append(parent.children, n)
		if cancelable {
			if pc := parent.cancelNode(); pc != nil && pc.err != nil {
				n.err = pc.err
				n.rel = pc.rel
			}
		}
	}
	return n
}

func ctxObj(c *CtxNode) interface{} {
	if cn := c.cancelNode(); cn != nil {
		return cn
	}
	return nil
}

func (n *CtxNode) cancel(g *G, err value) {
	g.ex.heapVersion++
	n.touchRec(g.ex)
	var vc []int
	if g.ex.mon != nil {
		vc = g.ex.mon.releaseVC(g)
	}
	n.cancelRec(err, vc)
}

func (n *CtxNode) touchRec(ex *Exec) {
	if n.canCancel {
		ex.touch(n, false)
		if n.done != nil {
			ex.touch(n.done, false)
		}
	}
	for _, c := range n.children {
		c.touchRec(ex)
	}
}

func (n *CtxNode) cancelRec(err value, vc []int) {
	if n.canCancel {
		if n.err != nil {
			return
		}
		n.err = err
		n.rel = vc
		if n.done != nil && !n.done.closed {
			n.done.closed = true
			n.done.closeVC = vc
		}
	}
	for _, c := range n.children {
		c.cancelRec(err, vc)
	}
}

func (ex *Exec) ctxValue(n *CtxNode) value {
	return iface{t: ex.prog.ctxType, v: n}
}

func ctxOf(v value) *CtxNode {
	it := v.(iface)
	if it.t == nil {
		return nil
	}
	n, ok := it.v.(*CtxNode)
	if !ok {
		panic(abortPath{"unsupported", fmt.Sprintf("foreign context implementation %s", it.t)})
	}
	return n
}

// ---- map access (maps are one cell for the race monitor)

func (g *G) mapAccess(m *omap, write bool) {
	if g.ex.mon != nil {
		g.ex.mon.mapAccess(g, m, write)
	}
	if write {
		g.ex.heapVersion++
	}
}

func arrivalSiteList() []string {
	var out []string
	for k := range arrivalActiveSet() {
		out = append(out, k)
	}
	return out
}
