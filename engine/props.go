package main

import (
	"fmt"
	"strings"

	"golang.org/x/tools/go/ssa"
)

type ssaFn = ssa.Function

var gThorough bool

type PropSpec struct {
	ID          string
	Pkgs        []string // repo-relative package dirs ("." = root)
	BoundsQ     string
	BoundsT     string
	Outside     string
	Assumptions []string
	Tune        func(cfg *Config, tier, entry string)
}

func (p *PropSpec) Bounds(tier string) string {
	if tier == "thorough" && p.BoundsT != "" {
		return p.BoundsT
	}
	return p.BoundsQ
}

func (p *PropSpec) configure(cfg *Config, tier, entry string) {
	if tier == "thorough" {
		cfg.Preempt = 3
		cfg.MaxPaths = 20_000_000
	}
	if p.Tune != nil {
		p.Tune(cfg, tier, entry)
	}
}

func findSpec(id string) *PropSpec {
	for i := range propSpecs {
		if propSpecs[i].ID == id {
			return &propSpecs[i]
		}
	}
	return nil
}

var commonAssumptions = []string{
	"go/ssa (x/tools v0.29.0) lowering defines the meaning of the source",
	"the fsx interpreter implements SSA instruction semantics faithfully (validated by the tv corpus, not proved)",
	"stdlib stubs and runtime models as listed in DESIGN.md §2.6/§3.2",
	"results hold only within the stated bounds",
	"concurrent entries: sleep-set reduction is applied under the preemption bound, so the bound applies to the explored representative of each partial-order class - a schedule within the bound whose representative exceeds it is not explored (DESIGN 16.3)",
}

var propSpecs = []PropSpec{
	{ID: "C18", Pkgs: []string{"dt"},
		BoundsQ:     "ordered/unordered sets, <=3 operations out of {Add, AddCheck, Delete, DeleteCheck, Populate(2), Extend(2), SortQuick, SortMerge} over values {0,1,2}; after every step Len, Check(0..2), return values and the iterator (multiset, or sequence when ordered) against a reference; Equal against 4 kinds of second set; synchronized set: 2 goroutines x 2 operations (AddCheck/DeleteCheck/Check/Len over {0,1}), history explained by an interleaving, preemption bound 2",
		BoundsT:     "4 operations (the fourth out of the six single-value operations and sorts)",
		Outside:     "JSON round trip; value domains beyond 3 values; longer sequences; the unordered iterator's goroutine is scheduled without preemption here (schedules are C04/C13)",
		Assumptions: commonAssumptions,
		Tune: func(cfg *Config, tier, entry string) {
			cfg.Preempt = 0
			if entry == "VC18_Sync" {
				// (bound 3 does not complete within the thorough budget)
				cfg.Preempt = 2
			}
		}},
	{ID: "C19", Pkgs: []string{"dt/hdrhist"},
		BoundsQ:     "lemmas: v = any 64-bit value in [min,max], shape grid sig 1..3 x 5 mins x boundary/decimal maxes (countsLen<=300000); walk: 5 small shapes, <=2 distinct values x multiplicity <=2, every rank, q=100, q>100, Min/Max, Export/Import, Merge; independence of Export/Import/Merge copies (2 shapes, 1 symbolic value, 5 mutation modes)",
		BoundsT:     "lemmas: sig 1..5 x 8 mins x extended maxes up to 2^62; walk: 8 small shapes, <=3 values x multiplicity <=2",
		Outside:     "shapes off the grid; Mean/StdDev/CumulativeDistribution; arbitrary Float64 q (only rank-targeting q, 100, >100); more than 3 distinct recorded values in whole-histogram walks; composition of the per-value lemmas into the quantile clause for large shapes is an argument (DESIGN C19), not a query",
		Assumptions: commonAssumptions,
		Tune: func(cfg *Config, tier, entry string) {
			cfg.Race = false
			cfg.Unwind = 400000 // the shape enumeration of the harness is one long concrete loop nest
			cfg.ConcretizeIndex = entry == "VC19_Walk" || entry == "VC19_Alias"
		}},
	{ID: "C07", Pkgs: []string{"pubsub"},
		BoundsQ:     "<=4 client goroutines (+ the helper goroutines the library starts), preemption bound 2",
		BoundsT:     "preemption bound 3",
		Outside:     "more clients; more preemptions; durations ('promptly' = at quiescence under weak fairness)",
		Assumptions: commonAssumptions,
		Tune: func(cfg *Config, tier, entry string) {
			if strings.HasPrefix(entry, "VC07_Deque") {
				// the deque's wait loops signal before every wait: many more visible operations
				cfg.Preempt = 1
				if tier == "thorough" {
					cfg.Preempt = 2
				}
			}
		}},
	{ID: "C12", Pkgs: []string{"ers", "erc"},
		BoundsQ:     "trees of depth <=2 with <=4 non-nil leaves over {ers.Join(2..3), ers.Wrap, fmt.Errorf(%w), errors.Join, ParsePanic, Stack.Push chain}; leaves from {nil, two sentinels, pointer error, typed error with symbolic code}; sequential and concurrent (2 adders + reader) Collector",
		BoundsT:     "<=5 leaves",
		Outside:     "deeper trees; custom Is/As methods on leaves; message formatting (fmt is stubbed: messages of symbolic values are not compared)",
		Assumptions: commonAssumptions,
		Tune:        func(cfg *Config, tier, entry string) {}},
	{ID: "C16", Pkgs: []string{"dt"},
		BoundsQ:     "two lists (lengths <=3 and <=1, symbolic values) + one detached element + nil handle; 1 arbitrary operation out of 11 kinds with handles chosen from every element ever returned (attached, detached, root, nil); full observation (both walks, Slice, both iterators, Len, In/Ok/Value of every handle) compared with a ring model after every step; pop iterators drained",
		BoundsT:     "same with 2 consecutive arbitrary operations; Stack: 2 operations",
		Outside:     "longer operation sequences; JSON (reflection, strconv); sorting is C17",
		Assumptions: commonAssumptions,
		Tune:        func(cfg *Config, tier, entry string) { cfg.Race = false }},
	{ID: "C17", Pkgs: []string{"dt"},
		BoundsQ:     "lists of n<=5 elements with unconstrained symbolic int64 keys, three comparators (native, reversed, key>>1 projected); SortMerge, SortQuick (stability), IsSorted, Heap; list usability after sort",
		BoundsT:     "n<=6",
		Outside:     "n beyond the bound; comparison functions that are not strict weak orderings; Set sorting is covered under C18",
		Assumptions: commonAssumptions,
		Tune:        func(cfg *Config, tier, entry string) { cfg.Race = false }},
	{ID: "C14", Pkgs: []string{"."},
		BoundsQ:     "arithmetic: <=3 Add(num) with num any value in [-2^61,2^61]; scenarios: <=2 workers x <=2 waiters, 4 launchers (Launch, Operation.Add, DoTimes, manual Add/Done), cancellation of one waiter, preemption bound 2; reuse: 2 rounds at preemption bound 1",
		BoundsT:     "preemption bound 3 (reuse: 2)",
		Outside:     "more waiters/workers/rounds; overflow of the counter beyond 2^62; durations",
		Assumptions: commonAssumptions,
		Tune:        func(cfg *Config, tier, entry string) {}},
	{ID: "C15", Pkgs: []string{".", "adt"},
		BoundsQ:     "Once: 10 wrapper kinds x <=2 concurrent callers; Limit(n): n symbolic in [1,4], <=5 sequential calls (5 kinds), 2 goroutines x 2 calls concurrently (3 kinds, n in [1,3]); Lock/WithLock: 7 kinds x 2 callers; Retry(n): n symbolic in [0,3], every outcome sequence over {ok, error, skip, EOF, abort, canceled} (3 kinds); hooks/Join: 11 compositions x live/cancelled context; background waiters: 9 kinds; preemption bound 2",
		BoundsT:     "<=3 concurrent callers, preemption bound 3",
		Outside:     "TTL, Delay, After, Jitter, Interval (wall clock); panicking wrapped functions under Limit/Once; deeper stackings of wrappers",
		Assumptions: commonAssumptions,
		Tune:        func(cfg *Config, tier, entry string) {}},
	{ID: "C05", Pkgs: []string{"pubsub"},
		BoundsQ:     "step: every option combination (unlimited, or hard limit in [1,3], soft quota in [0,hard], burst credit in {default, 0.5, 1, 2.5}), canonical prefix of <=3 Add/Remove, optional Close, then one of 9 operations (Add, Remove, Len, Close, Wait, BlockingAdd, Distributor Send/Len/Receive), queue drained and compared; tracker step (private state): one add/remove from an arbitrary valid tracker state with hard limit <=16 and symbolic Float64 credit; histories: 2-3 goroutines x <=2 operations on unlimited and capacity-1 queues, linearization search over all real-time-consistent orders, preemption bound 2; race monitor on every execution",
		BoundsT:     "histories at preemption bound 3; prefix <=5; 3 operations per step",
		Outside:     "queues longer than the bounds; the amount of credit granted by a removal and the dynamic soft quota (not specified by the documentation) - after a removal an Add below the hard limit may succeed or report ErrQueueNoCredit; linearizability of all histories rests on the lock-discipline premise (race monitor) plus the one-step refinement, the history search is a cross-check within its bounds",
		Assumptions: commonAssumptions,
		Tune:        func(cfg *Config, tier, entry string) {}},
	{ID: "C06", Pkgs: []string{"pubsub"},
		BoundsQ:     "step: unlimited / fixed capacity 1..3 / quota tracker (hard 1..3, soft 0..hard), prefix of <=3 pushes at either end, optional Close, then 2 arbitrary operations out of 12 (Push, Pop, ForcePush, Wait, WaitPush at both ends, Len, Close), Len and both non-destructive walks compared with a reference deque after every step; histories: 2 goroutines, 3 operations of 12 kinds on unlimited and capacity-1 deques, linearization search, preemption bound 1; race monitor on every execution",
		BoundsT:     "3 operations per step; histories at preemption bound 2",
		Outside:     "longer deques; for the quota tracker the eviction rule is asserted only as 'at most one, from the opposite end, push then succeeds' and plain pushes below the hard limit may report ErrQueueNoCredit; the reduction to all histories is the argument of DESIGN C05/C06",
		Assumptions: commonAssumptions,
		Tune: func(cfg *Config, tier, entry string) {
			if entry == "VC06_Hist" {
				cfg.Preempt = 1
				if tier == "thorough" {
					cfg.Preempt = 2
				}
			}
		}},
	{ID: "C20", Pkgs: []string{"pubsub"},
		BoundsQ:     "one iterator goroutine (Queue Producer/Iterator; Deque forward/reverse x blocking/non-blocking producers), initial contents <=2 symbolic items (plus a burst-credit queue scenario with a parked BlockingAdd and a parked iterator), one mutator goroutine with <=3 (queue) / <=2 (deque) operations out of {Add/Push at the far end, Close, cancel} and, in the removal regime, Remove/Pop and pushes at the near end; preemption bound 2 (queue) / 1 (deque)",
		BoundsT:     "deque: <=3 mutations; preemption bound 3 / 2",
		Outside:     "more items or mutations; several iterators at once; with concurrent removal only the weak clauses of the statement are asserted",
		Assumptions: commonAssumptions,
		Tune: func(cfg *Config, tier, entry string) {
			if entry == "VC20_Deque" {
				cfg.Preempt = 1
				if tier == "thorough" {
					cfg.Preempt = 2
				}
			}
		}},
	{ID: "C13", Pkgs: []string{".", "pubsub", "erc", "adt", "dt"},
		BoundsQ:     "every unordered pair of public methods (11 Queue, 16 Deque, 8 WaitGroup, 7 Collector, 11 adt.Map, 5 Atomic, 5 Synchronized, 5 Once, 5 Pool, 12 synchronized Set operations; 12 Lock/Once/Limit wrappers x 2 callers) on one shared instance in two goroutines, every schedule class within preemption bound 2, happens-before (vector clock) monitor over every interpreted memory access",
		BoundsT:     "triples (three goroutines) for the pair entries except Queue/Deque (pairs at preemption bound 3), 3 callers for wrappers, preemption bound 2",
		Outside:     "pubsub.Broker (see C08/C09); more than three goroutines; races that need longer call sequences per goroutine; the monitor works at the granularity of interpreted cells (maps are one cell), data races inside the Go runtime objects themselves (sync.Map, sync.Pool) are outside (they are models)",
		Assumptions: commonAssumptions,
		Tune: func(cfg *Config, tier, entry string) {
			cfg.Preempt = 2
			if tier == "thorough" && (entry == "VC13_Queue" || entry == "VC13_Deque") {
				cfg.Preempt = 3
			}
		}},
	{ID: "C02", Pkgs: []string{"itertool"},
		BoundsQ:     "sources: 9 constructors/conversions over <=3 symbolic ints, optionally one stage; trees: slice source of <=3 symbolic ints and 2 stages out of {Filter(x<t), Transform(x+c) with a skip/error/EOF/abort injected at a symbolic position, Join, Chain, Uniq, DropZeroValues, Buffer(n), Split(1), Channel/BufferedChannel, list conversion}; sinks: ReadOne loop (+2 reads after the end), Slice, Count, Reduce(sum), Indexed; goroutine-backed stages run under the scheduler at preemption bound 1 (trees: non-preemptive switches only)",
		BoundsT:     "sources and single stages at preemption bound 2; trees as in the quick tier (three stages do not complete within the budget)",
		Outside:     "JSON marshal/unmarshal (reflection, strconv); deeper trees; Join/Chain placed after a faulted stage (the statement does not say whether the second source still follows); which error Close reports",
		Assumptions: commonAssumptions,
		Tune: func(cfg *Config, tier, entry string) {
			cfg.Preempt = 1
			if tier == "thorough" {
				cfg.Preempt = 2
			}
			if entry == "VC02_Tree" {
				cfg.Preempt = 0
			}
		}},
	{ID: "C03", Pkgs: []string{"."},
		BoundsQ:     "table: the real CanContinueOnError with the three option bits symbolic, ExcludedErrors in {none, {E}}, 16 error shapes (incl. panics whose value carries a sentinel); scenarios: ProcessParallel over <=4 items and Map over <=3 items with 1-2 workers, the user function failing on one chosen item with one of 7 kinds (plain error, panic, skip, EOF, excluded, wrapped ErrCurrentOpAbort, panic carrying io.EOF), continue options on or off, preemption bound 1",
		BoundsT:     "preemption bound 2",
		Outside:     "GenerateParallel and the itertool wrappers (same classification code, not run as scenarios); two failing items; custom collectors; more workers/items",
		Assumptions: commonAssumptions,
		Tune: func(cfg *Config, tier, entry string) {
			cfg.Preempt = 1
			if tier == "thorough" {
				cfg.Preempt = 2
			}
		}},
	{ID: "C01", Pkgs: []string{"."},
		BoundsQ:     "<=3 items {concrete id, symbolic value} through Split(1-2 outputs, one consumer goroutine each), ProcessParallel and Map (1-2 workers, Map adds a symbolic constant), Buffer/ParallelBuffer (size 1-2), MergeIterators (2 sources, every cut), GenerateParallel (<=2 items, 1-2 workers), two goroutines sharing ReadOne on a channel iterator; nothing aborts; preemption bound 1",
		BoundsT:     "3 outputs/workers; preemption bound 2",
		Outside:     "more items, workers or preemptions; itertool.ParallelForEach/Worker (thin wrappers over ProcessParallel); processing functions that block",
		Assumptions: commonAssumptions,
		Tune: func(cfg *Config, tier, entry string) {
			cfg.Preempt = 1
			if tier == "thorough" {
				cfg.Preempt = 2
			}
		}},
	{ID: "C04", Pkgs: []string{"itertool"},
		BoundsQ:     "11 constructs (Split, Buffer, ParallelBuffer, Map, GenerateParallel, MergeIterators, Chain, MergeSlices, MergeSliceIterators, dt.Map and adt.Map iterators) x <=2 items x every cut point x {exhaust, Close (twice), cancel, Close then cancel}; a consumer parked in ReadOne released by Close/cancel from another goroutine (4 constructs); Split(2) with one output abandoned and the other closed; ParallelBuffer/GenerateParallel with 3-4 items for 2 workers sharing the output buffer, stopped early; preemption bound 1",
		BoundsT:     "<=3 items; preemption bound 2 except for the construct x cut x stop matrix (bound 1: bound 2 with 3 items does not complete within the budget)",
		Outside:     "ProcessParallel as a Worker (returns only after its workers, see C01/C03); BufferedChannel (a Go channel has no Close for the consumer; covered in C02 with exhaustion); more items/workers/preemptions; 'promptly' = at quiescence",
		Assumptions: commonAssumptions,
		Tune: func(cfg *Config, tier, entry string) {
			cfg.Preempt = 1
			if (tier == "thorough" && entry != "VC04_Stop") || entry == "VC04_SharedBuffer" {
				// the shared-buffer hand-off needs two preemptions to be seen
				// (sleep sets are applied under the bound, see DESIGN 16)
				cfg.Preempt = 2
			}
		}},
	{ID: "C10", Pkgs: []string{"srv"},
		BoundsQ:     "phases: Run in {blocks until the context ends, ok, error, panic} x Shutdown, Cleanup in {absent, ok, error, panic} x ErrorHandler absent/present x ending by Run returning, Close or parent cancel after Start returned, one starter, preemption bound 1; concurrency: 2 concurrent Start callers plus optionally a Close or a Wait caller, Run blocking or returning at once, preemption bound 2",
		BoundsT:     "phases at preemption bound 2; 3 concurrent Start callers",
		Outside:     "Close/cancel issued before Start returned in the phase matrix (covered by the concurrency entry for ok phases only); panicking ErrorHandler; srv.HTTP/Cmd and the other wrappers (C11)",
		Assumptions: commonAssumptions,
		Tune: func(cfg *Config, tier, entry string) {
			cfg.Preempt = 1
			if entry == "VC10_Concurrent" || tier == "thorough" {
				cfg.Preempt = 2
			}
		}},
	{ID: "C08", Pkgs: []string{"pubsub"},
		BoundsQ:     "lossless brokers (channel / unlimited Queue / unlimited Deque distributor, unbuffered subscriptions, 1 dispatch worker, sequential or parallel dispatch), 1 publisher with <=2 messages {concrete id, symbolic value}, <=2 subscribers (the second subscribing at a chosen point between the publishes), preemption bound 1; load-shedding brokers (bounded Queue, LIFO deque; buffered subscriptions): 3 publishes, 1 subscriber, only-published/no-duplicate clauses; Unsubscribe of the second of 2 subscribers at a chosen point, once or twice, optionally also of a stranger channel",
		BoundsT:     "preemption bound 2",
		Outside:     "several publishers, WorkerPoolSize>1; more messages/subscribers/preemptions",
		Assumptions: commonAssumptions,
		Tune: func(cfg *Config, tier, entry string) {
			cfg.Preempt = 1
			if tier == "thorough" || entry == "VC04_SharedBuffer" {
				// the shared-buffer hand-off needs two preemptions to be seen
				// (sleep sets are applied under the bound, see DESIGN 16)
				cfg.Preempt = 2
			}
		}},
	{ID: "C09", Pkgs: []string{"pubsub"},
		BoundsQ:     "progress: 4 back-ends (channel, unlimited Queue, unlimited Deque, LIFO deque of capacity 2), a burst of <=3 publishes by one publisher goroutine, 1-2 subscribers that keep receiving, 1 dispatch worker; shutdown: 1 subscriber, 1 publisher (2 messages), a concurrent Wait and a concurrent Stop or context cancellation, then the clients' context is cancelled and every client call is made once more; preemption bound 1",
		BoundsT:     "preemption bound 2",
		Outside:     "WorkerPoolSize>1, ParallelDispatch, larger bursts; 'never stalls', 'promptly' = at quiescence under weak fairness; a subscriber that stops receiving without unsubscribing (premise of the property)",
		Assumptions: commonAssumptions,
		Tune: func(cfg *Config, tier, entry string) {
			cfg.Preempt = 1
			if tier == "thorough" || entry == "VC04_SharedBuffer" {
				// the shared-buffer hand-off needs two preemptions to be seen
				// (sleep sets are applied under the bound, see DESIGN 16)
				cfg.Preempt = 2
			}
		}},
	{ID: "C11", Pkgs: []string{"srv"},
		BoundsQ:     "Orchestrator: 1-2 services (the first in state not-started/running/finished with outcome ok/error/panic/blocks, the second not started with ok/error), each added before or after the orchestrator started; Group: 1-2 members with 4 outcomes; WorkerPool/HandlerWorkerPool: pool size 1-2, 1-2 jobs (ok/error/panic) added before or after start; Cleanup: 1-2 cleanup functions (ok/error/panic/io.EOF/context.Canceled); orchestrator with queued services (not started or finished, failing or not) whose context is cancelled before or right after Start; non-preemptive schedules (preemption bound 0: switches only where a goroutine blocks or ends)",
		BoundsT:     "Cleanup at preemption bound 1 (the other entries do not complete at bound 1 within the budget: Group and WorkerPool ran past 15 min, Orchestrator past 2M paths)",
		Outside:     "jobs racing the shutdown itself (every Add happens before Close is called); timeouts (Cleanup timeout 0); queue limits; more services/jobs",
		Assumptions: commonAssumptions,
		Tune: func(cfg *Config, tier, entry string) {
			cfg.Preempt = 0
			if tier == "thorough" && entry == "VC11_Cleanup" {
				cfg.Preempt = 1
			}
		}},
	{ID: "TV", Pkgs: []string{"internal"}, BoundsQ: "translator validation corpus"},
}

// reachLabels returns the constant labels passed to vf.Reach anywhere in fn
// (including its anonymous functions).
func reachLabels(fn *ssa.Function) []string {
	var out []string
	seen := map[string]bool{}
	var visit func(f *ssa.Function)
	visit = func(f *ssa.Function) {
		for _, b := range f.Blocks {
			for _, in := range b.Instrs {
				c, ok := in.(*ssa.Call)
				if !ok {
					continue
				}
				callee := c.Call.StaticCallee()
				if callee == nil || callee.Name() != "Reach" || callee.Signature.Recv() == nil {
					continue
				}
				if !strings.HasSuffix(callee.Signature.Recv().Type().String(), "vfT") {
					continue
				}
				if len(c.Call.Args) >= 2 {
					if k, ok := c.Call.Args[1].(*ssa.Const); ok {
						l := constValue(k).(string)
						if !seen[l] {
							seen[l] = true
							out = append(out, l)
						}
					}
				}
			}
		}
		for _, af := range f.AnonFuncs {
			visit(af)
		}
	}
	visit(fn)
	return out
}

// runCanaries executes the built-in self-test harnesses (functions named
// VCanary_* in the prelude) - each must come back violated.
func runCanaries(prog *Program, id string) error {
	ents := prog.entries("VCanary_")
	for _, e := range ents {
		cfg := defaultConfig()
		cfg.Workers = 2
		er := runEntry(prog, e, cfg, nil, nil)
		if len(er.Errors) > 0 {
			return fmt.Errorf("canary %s: engine error: %s", e.Name(), firstLine(er.Errors[0]))
		}
		if len(er.Violations) == 0 {
			return fmt.Errorf("canary %s did not produce its violation", e.Name())
		}
	}
	return nil
}
