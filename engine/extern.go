package main

// Stubs for the standard library (every one is part of the claim; DESIGN §2.6).

import (
	"fmt"
	"go/types"
	"math"
	"strconv"
	"strings"

	"golang.org/x/tools/go/ssa"
)

var externals map[string]nativeFn

func init() {
	externals = map[string]nativeFn{
		// sync
		"(*sync.Mutex).Lock":      func(g *G, fr *frame, a []value) value { g.lock(g.ex.mutexAt(nonNil(g, a[0]))); return nil },
		"(*sync.Mutex).Unlock":    func(g *G, fr *frame, a []value) value { g.unlock(g.ex.mutexAt(nonNil(g, a[0]))); return nil },
		"(*sync.Mutex).TryLock":   func(g *G, fr *frame, a []value) value { return g.tryLock(g.ex.mutexAt(nonNil(g, a[0]))) },
		"(*sync.RWMutex).Lock":    func(g *G, fr *frame, a []value) value { g.lock(g.ex.mutexAt(nonNil(g, a[0]))); return nil },
		"(*sync.RWMutex).Unlock":  func(g *G, fr *frame, a []value) value { g.unlock(g.ex.mutexAt(nonNil(g, a[0]))); return nil },
		"(*sync.RWMutex).RLock":   func(g *G, fr *frame, a []value) value { g.rlock(g.ex.mutexAt(nonNil(g, a[0]))); return nil },
		"(*sync.RWMutex).RUnlock": func(g *G, fr *frame, a []value) value { g.runlock(g.ex.mutexAt(nonNil(g, a[0]))); return nil },
		"(*sync.Cond).Wait":       extCondWait,
		"(*sync.Cond).Signal":     extCondSignal,
		"(*sync.Cond).Broadcast":  extCondBroadcast,
		"(*sync.WaitGroup).Add":   extWGAdd,
		"(*sync.WaitGroup).Done": func(g *G, fr *frame, a []value) value {
			return extWGAdd(g, fr, []value{a[0], int(-1)})
		},
		"(*sync.WaitGroup).Wait":       extWGWait,
		"(*sync.Map).Load":             extSyncMap("Load"),
		"(*sync.Map).Store":            extSyncMap("Store"),
		"(*sync.Map).LoadOrStore":      extSyncMap("LoadOrStore"),
		"(*sync.Map).LoadAndDelete":    extSyncMap("LoadAndDelete"),
		"(*sync.Map).Delete":           extSyncMap("Delete"),
		"(*sync.Map).Swap":             extSyncMap("Swap"),
		"(*sync.Map).CompareAndSwap":   extSyncMap("CompareAndSwap"),
		"(*sync.Map).CompareAndDelete": extSyncMap("CompareAndDelete"),
		"(*sync.Map).Range":            extSyncMap("Range"),
		"(*sync.Pool).Get":             extPoolGet,
		"(*sync.Pool).Put":             extPoolPut,

		// sync/atomic value types with unsafe internals
		"(*sync/atomic.Value).Load":                extAtomicValue("Load"),
		"(*sync/atomic.Value).Store":               extAtomicValue("Store"),
		"(*sync/atomic.Value).Swap":                extAtomicValue("Swap"),
		"(*sync/atomic.Value).CompareAndSwap":      extAtomicValue("CompareAndSwap"),
		"(*sync/atomic.Pointer[T]).Load":           extAtomicPointer("Load"),
		"(*sync/atomic.Pointer[T]).Store":          extAtomicPointer("Store"),
		"(*sync/atomic.Pointer[T]).Swap":           extAtomicPointer("Swap"),
		"(*sync/atomic.Pointer[T]).CompareAndSwap": extAtomicPointer("CompareAndSwap"),

		// context
		"context.Background":   func(g *G, fr *frame, a []value) value { return g.ex.ctxValue(g.ex.background()) },
		"context.TODO":         func(g *G, fr *frame, a []value) value { return g.ex.ctxValue(g.ex.background()) },
		"context.WithCancel":   extWithCancel,
		"context.WithTimeout":  func(g *G, fr *frame, a []value) value { return extWithCancel(g, fr, a[:1]) },
		"context.WithDeadline": func(g *G, fr *frame, a []value) value { return extWithCancel(g, fr, a[:1]) },
		"context.WithValue": func(g *G, fr *frame, a []value) value {
			p := ctxOf(a[0])
			if p == nil {
				panic(targetPanic{v: iface{t: types.Typ[types.String], v: "cannot create context from nil parent"}})
			}
			n := g.ex.newCtx(p, false)
			n.key, n.val = a[1], a[2]
			return g.ex.ctxValue(n)
		},
		"context.Cause": func(g *G, fr *frame, a []value) value {
			n := ctxOf(a[0])
			return n.method("Err")(g, fr, []value{n})
		},

		// the module's two reflection helpers, over interpreter values
		"github.com/tychoish/fun/internal.IsPtr": func(g *G, fr *frame, a []value) value {
			it := a[0].(iface)
			if it.t == nil {
				return false
			}
			_, ok := it.t.Underlying().(*types.Pointer)
			return ok
		},
		"github.com/tychoish/fun/internal.IsNil": func(g *G, fr *frame, a []value) value {
			it := a[0].(iface)
			if it.t == nil {
				return true
			}
			switch it.t.Underlying().(type) {
			case *types.Pointer:
				p, ok := it.v.(*value)
				return ok && p == nil
			case *types.Slice:
				sl, ok := it.v.([]value)
				return ok && sl == nil
			case *types.Map:
				switch m := it.v.(type) {
				case *omap:
					return m == nil
				case nil:
					return true
				}
				return false
			case *types.Chan:
				c, ok := it.v.(*Chan)
				return ok && c == nil
			case *types.Signature:
				switch f := it.v.(type) {
				case *closure:
					return f == nil
				case *ssa.Function:
					return f == nil
				case nil:
					return true
				}
				return false
			case *types.Interface:
				inner, ok := it.v.(iface)
				return ok && inner.t == nil
			}
			return false
		},

		// errors
		"errors.Is": extErrorsIs,
		"errors.As": extErrorsAs,

		// fmt
		"fmt.Errorf":   extErrorf,
		"fmt.Sprintf":  func(g *G, fr *frame, a []value) value { return fmtSprintf(g, a[0].(string), a[1].([]value)) },
		"fmt.Sprint":   func(g *G, fr *frame, a []value) value { return fmtSprint(g, a[0].([]value), "") },
		"fmt.Sprintln": func(g *G, fr *frame, a []value) value { return fmtSprint(g, a[0].([]value), " ") + "\n" },
		"fmt.Println":  func(g *G, fr *frame, a []value) value { return tuple{0, iface{}} },
		"fmt.Printf":   func(g *G, fr *frame, a []value) value { return tuple{0, iface{}} },
		"fmt.Print":    func(g *G, fr *frame, a []value) value { return tuple{0, iface{}} },
		"fmt.Fprintf":  func(g *G, fr *frame, a []value) value { return tuple{0, iface{}} },
		"fmt.Fprint":   func(g *G, fr *frame, a []value) value { return tuple{0, iface{}} },
		"fmt.Fprintln": func(g *G, fr *frame, a []value) value { return tuple{0, iface{}} },

		// sort
		"sort.SliceStable": extSortSlice(true),
		"sort.Slice":       extSortSlice(false),

		// math (concrete arguments only)
		"math.Pow":   math2(math.Pow),
		"math.Pow10": func(g *G, fr *frame, a []value) value { return math.Pow10(int(concInt(g, a[0]))) },
		"math.Log2":  math1(math.Log2),
		"math.Log":   math1(math.Log),
		"math.Log10": math1(math.Log10),
		"math.Ceil":  math1(math.Ceil),
		"math.Floor": math1(math.Floor),
		"math.Sqrt":  math1(math.Sqrt),
		"math.Abs":   math1(math.Abs),
		"math.Float64bits": func(g *G, fr *frame, a []value) value {
			return math.Float64bits(concF64(g, a[0]))
		},
		"math.Float64frombits": func(g *G, fr *frame, a []value) value {
			return math.Float64frombits(uint64(concInt(g, a[0])))
		},
		"math.IsNaN": func(g *G, fr *frame, a []value) value { return math.IsNaN(concF64(g, a[0])) },
		"math.IsInf": func(g *G, fr *frame, a []value) value { return math.IsInf(concF64(g, a[0]), int(concInt(g, a[1]))) },
		"math.Inf":   func(g *G, fr *frame, a []value) value { return math.Inf(int(concInt(g, a[0]))) },
		"math.NaN":   func(g *G, fr *frame, a []value) value { return math.NaN() },

		// strings / strconv (concrete)
		"strings.TrimSpace": func(g *G, fr *frame, a []value) value { return strings.TrimSpace(a[0].(string)) },
		"strings.Join": func(g *G, fr *frame, a []value) value {
			var ss []string
			for _, e := range a[0].([]value) {
				ss = append(ss, e.(string))
			}
			return strings.Join(ss, a[1].(string))
		},
		"strings.Contains":  func(g *G, fr *frame, a []value) value { return strings.Contains(a[0].(string), a[1].(string)) },
		"strings.HasPrefix": func(g *G, fr *frame, a []value) value { return strings.HasPrefix(a[0].(string), a[1].(string)) },
		"strings.HasSuffix": func(g *G, fr *frame, a []value) value { return strings.HasSuffix(a[0].(string), a[1].(string)) },
		"strconv.Itoa":      func(g *G, fr *frame, a []value) value { return strconv.Itoa(int(concInt(g, a[0]))) },

		// runtime
		"runtime.NumCPU":       func(g *G, fr *frame, a []value) value { return 2 },
		"runtime.Gosched":      extGosched,
		"runtime.SetFinalizer": func(g *G, fr *frame, a []value) value { return nil },
		"runtime.KeepAlive":    func(g *G, fr *frame, a []value) value { return nil },
		"time.Sleep":           extGosched,
	}
	for _, k := range []string{"Int32", "Int64", "Uint32", "Uint64", "Uintptr"} {
		k := k
		externals["sync/atomic.Load"+k] = func(g *G, fr *frame, a []value) value {
			p := a[0].(*value)
			g.atomicOp(p, "load")
			g.observe(p, *p)
			return *p
		}
		externals["sync/atomic.Store"+k] = func(g *G, fr *frame, a []value) value {
			p := a[0].(*value)
			g.atomicOp(p, "store")
			*p = a[1]
			g.ex.heapVersion++
			return nil
		}
		externals["sync/atomic.Add"+k] = func(g *G, fr *frame, a []value) value {
			p := a[0].(*value)
			g.atomicOp(p, "add")
			*p = binop(g, tokADD, nil, *p, a[1])
			g.ex.heapVersion++
			return *p
		}
		externals["sync/atomic.Swap"+k] = func(g *G, fr *frame, a []value) value {
			p := a[0].(*value)
			g.atomicOp(p, "swap")
			old := *p
			*p = a[1]
			g.ex.heapVersion++
			return old
		}
		externals["sync/atomic.CompareAndSwap"+k] = func(g *G, fr *frame, a []value) value {
			p := a[0].(*value)
			g.atomicOp(p, "cas")
			eq := eqTermV(g, nil, *p, a[1])
			if g.ex.Branch(g, eq) {
				*p = a[2]
				g.ex.heapVersion++
				return true
			}
			return false
		}
	}
}

func nonNil(g *G, v value) *value {
	p := v.(*value)
	if p == nil {
		rtPanic(g, "invalid memory address or nil pointer dereference")
	}
	return p
}

func concF64(g *G, v value) float64 {
	switch v := v.(type) {
	case float64:
		return v
	case float32:
		return float64(v)
	case Sym:
		return math.Float64frombits(g.ex.Concretize(g, v.T))
	}
	panic(fmt.Sprintf("concF64: %T", v))
}

func math1(f func(float64) float64) nativeFn {
	return func(g *G, fr *frame, a []value) value { return f(concF64(g, a[0])) }
}

func math2(f func(float64, float64) float64) nativeFn {
	return func(g *G, fr *frame, a []value) value { return f(concF64(g, a[0]), concF64(g, a[1])) }
}

func extGosched(g *G, fr *frame, a []value) value {
	g.visible(&pendOp{kind: "yield", enabled: alwaysEnabled, yieldy: true})
	return nil
}

// ---- sync.Cond

func condLocker(g *G, c *value) iface {
	// struct Cond { noCopy; L Locker; notify; checker }
	return (*c).(structure)[1].(iface)
}

func callMethod(g *G, fr *frame, recv iface, name string, args ...value) value {
	if recv.t == nil {
		rtPanic(g, "invalid memory address or nil pointer dereference (method call on nil interface)")
	}
	fn := g.ex.prog.method(recv.t, name)
	if fn == nil {
		panic(fmt.Sprintf("no method %s on %s", name, recv.t))
	}
	return call(g, fr, 0, fn, append([]value{recv.v}, args...))
}

func (p *Program) method(t types.Type, name string) *ssa.Function {
	ms := p.prog.MethodSets.MethodSet(t)
	for i := 0; i < ms.Len(); i++ {
		sel := ms.At(i)
		if sel.Obj().Name() == name {
			return p.prog.MethodValue(sel)
		}
	}
	return nil
}

func extCondWait(g *G, fr *frame, a []value) value {
	cp := nonNil(g, a[0])
	c := g.ex.condAt(cp)
	L := condLocker(g, cp)
	g.visible(&pendOp{kind: "cond.enter", obj: c, enabled: alwaysEnabled})
	tk := &condTicket{g: g}
	c.waiters = append(c.waiters, tk)
	g.trace("cond%d.wait enter", c.id)
	callMethod(g, fr, L, "Unlock")
	g.parked = fmt.Sprintf("cond%d", c.id)
	g.visible(&pendOp{kind: "cond.wait", obj: c, enabled: func() bool { return tk.notified }})
	g.parked = ""
	g.trace("cond%d.wait woke", c.id)
	callMethod(g, fr, L, "Lock")
	return nil
}

func extCondSignal(g *G, fr *frame, a []value) value {
	c := g.ex.condAt(nonNil(g, a[0]))
	g.visible(&pendOp{kind: "cond.signal", obj: c, enabled: alwaysEnabled})
	g.trace("cond%d.signal (%d waiting)", c.id, len(c.waiters))
	if len(c.waiters) > 0 {
		c.waiters[0].notified = true
		c.waiters = c.waiters[1:]
	}
	return nil
}

func extCondBroadcast(g *G, fr *frame, a []value) value {
	c := g.ex.condAt(nonNil(g, a[0]))
	g.visible(&pendOp{kind: "cond.broadcast", obj: c, enabled: alwaysEnabled})
	g.trace("cond%d.broadcast (%d waiting)", c.id, len(c.waiters))
	for _, w := range c.waiters {
		w.notified = true
	}
	c.waiters = nil
	return nil
}

// ---- sync.WaitGroup

func extWGAdd(g *G, fr *frame, a []value) value {
	wg := g.ex.wgAt(nonNil(g, a[0]))
	d := concInt(g, a[1])
	g.visible(&pendOp{kind: "wg.add", obj: wg, enabled: alwaysEnabled})
	wg.n += d
	if g.ex.mon != nil {
		wg.rel = g.ex.mon.joinVC(wg.rel, g.ex.mon.releaseVC(g))
	}
	if wg.n < 0 {
		panic(targetPanic{v: iface{t: types.Typ[types.String], v: "sync: negative WaitGroup counter"}, msg: "sync: negative WaitGroup counter"})
	}
	return nil
}

func extWGWait(g *G, fr *frame, a []value) value {
	wg := g.ex.wgAt(nonNil(g, a[0]))
	g.visible(&pendOp{kind: "wg.wait", obj: wg, enabled: func() bool { return wg.n == 0 }})
	if g.ex.mon != nil {
		g.ex.mon.acquireVC(g, wg.rel)
	}
	return nil
}

// ---- sync.Map (each method atomic)

type syncMapM struct {
	m   *omap
	rel []int
}

var anyType = types.NewInterfaceType(nil, nil)

func extSyncMap(op string) nativeFn {
	return func(g *G, fr *frame, a []value) value {
		p := nonNil(g, a[0])
		sm := g.ex.obj(p, func() interface{} { return &syncMapM{m: makeMap(anyType)} }).(*syncMapM)
		g.visible(&pendOp{kind: "syncmap." + op, obj: sm, enabled: alwaysEnabled})
		if g.ex.mon != nil {
			g.ex.mon.acquireVC(g, sm.rel)
			sm.rel = g.ex.mon.joinVC(sm.rel, g.ex.mon.releaseVC(g))
		}
		key := func(i int) value { return g.concKey(a[i]) }
		switch op {
		case "Load":
			v, ok := sm.m.lookup(key(1))
			if !ok {
				return tuple{iface{}, false}
			}
			return tuple{v, true}
		case "Store":
			sm.m.insert(key(1), a[2])
			return nil
		case "LoadOrStore":
			k := key(1)
			if v, ok := sm.m.lookup(k); ok {
				return tuple{v, true}
			}
			sm.m.insert(k, a[2])
			return tuple{a[2], false}
		case "LoadAndDelete":
			k := key(1)
			v, ok := sm.m.lookup(k)
			if !ok {
				return tuple{iface{}, false}
			}
			sm.m.delete(k)
			return tuple{v, true}
		case "Delete":
			sm.m.delete(key(1))
			return nil
		case "Swap":
			k := key(1)
			v, ok := sm.m.lookup(k)
			sm.m.insert(k, a[2])
			if !ok {
				return tuple{iface{}, false}
			}
			return tuple{v, true}
		case "CompareAndSwap":
			k := key(1)
			v, ok := sm.m.lookup(k)
			if ok && equals(anyType, v, a[2]) {
				sm.m.insert(k, a[3])
				return true
			}
			return false
		case "CompareAndDelete":
			k := key(1)
			v, ok := sm.m.lookup(k)
			if ok && equals(anyType, v, a[2]) {
				sm.m.delete(k)
				return true
			}
			return false
		case "Range":
			// snapshot of the keys; each callback runs outside the atomic step
			var keys []value
			for _, e := range sm.m.entries {
				if !e.deleted {
					keys = append(keys, e.k)
				}
			}
			for _, k := range keys {
				g.visible(&pendOp{kind: "syncmap.rangestep", obj: sm, enabled: alwaysEnabled})
				v, ok := sm.m.lookup(k)
				if !ok {
					continue
				}
				r := call(g, fr, 0, a[1], []value{k, v})
				if b, ok := r.(bool); ok && !b {
					break
				}
			}
			return nil
		}
		panic("syncmap op " + op)
	}
}

// ---- sync.Pool

// Put(x) synchronizes before the Get that returns x (Go memory model): each
// pooled item carries the releasing goroutine's clock.
type poolM struct {
	items []value
	rel   [][]int
}

func extPoolGet(g *G, fr *frame, a []value) value {
	p := nonNil(g, a[0])
	pm := g.ex.obj(p, func() interface{} { return &poolM{} }).(*poolM)
	g.visible(&pendOp{kind: "pool.get", obj: pm, enabled: alwaysEnabled})
	if n := len(pm.items); n > 0 {
		v := pm.items[n-1]
		pm.items = pm.items[:n-1]
		if g.ex.mon != nil {
			g.ex.mon.acquireVC(g, pm.rel[n-1])
		}
		pm.rel = pm.rel[:n-1]
		return v
	}
	// struct Pool { noCopy; local; localSize; victim; victimSize; New func() any }
	st := (*p).(structure)
	newFn := st[len(st)-1]
	if isNilRef(newFn) {
		return iface{}
	}
	return call(g, fr, 0, newFn, nil)
}

func extPoolPut(g *G, fr *frame, a []value) value {
	p := nonNil(g, a[0])
	pm := g.ex.obj(p, func() interface{} { return &poolM{} }).(*poolM)
	g.visible(&pendOp{kind: "pool.put", obj: pm, enabled: alwaysEnabled})
	if it, ok := a[1].(iface); ok && it.t == nil {
		return nil
	}
	pm.items = append(pm.items, a[1])
	var vc []int
	if g.ex.mon != nil {
		vc = g.ex.mon.releaseVC(g)
	}
	pm.rel = append(pm.rel, vc)
	return nil
}

// ---- atomic.Value / atomic.Pointer[T]

func extAtomicValue(op string) nativeFn {
	return func(g *G, fr *frame, a []value) value {
		p := nonNil(g, a[0])
		c := g.atomicOp(p, "value."+op)
		chk := func(v value) {
			it := v.(iface)
			if it.t == nil {
				panic(targetPanic{v: iface{t: types.Typ[types.String], v: "sync/atomic: store of nil value into Value"}, msg: "sync/atomic: store of nil value into Value"})
			}
			if c.set && !sameType(c.typ, it.t) {
				panic(targetPanic{v: iface{t: types.Typ[types.String], v: "sync/atomic: store of inconsistently typed value into Value"}, msg: "sync/atomic: store of inconsistently typed value into Value"})
			}
		}
		cur := func() value {
			if !c.set {
				return iface{}
			}
			return c.val
		}
		switch op {
		case "Load":
			return cur()
		case "Store":
			chk(a[1])
			c.val, c.set, c.typ = a[1], true, a[1].(iface).t
			g.ex.heapVersion++
			return nil
		case "Swap":
			chk(a[1])
			old := cur()
			c.val, c.set, c.typ = a[1], true, a[1].(iface).t
			g.ex.heapVersion++
			return old
		case "CompareAndSwap":
			chk(a[2])
			old := cur()
			oi, ni := a[1].(iface), old.(iface)
			if oi.t != nil && !sameType(oi.t, a[2].(iface).t) {
				panic(targetPanic{v: iface{t: types.Typ[types.String], v: "sync/atomic: compare and swap of inconsistently typed values"}, msg: "sync/atomic: compare and swap of inconsistently typed values"})
			}
			same := false
			if oi.t == nil || ni.t == nil {
				same = oi.t == nil && ni.t == nil
			} else if sameType(oi.t, ni.t) {
				if !types.Comparable(oi.t) {
					rtPanic(g, "comparing uncomparable type "+oi.t.String())
				}
				same = g.ex.Branch(g, eqTermV(g, oi.t, oi.v, ni.v))
			}
			if same {
				c.val, c.set, c.typ = a[2], true, a[2].(iface).t
				g.ex.heapVersion++
			}
			return same
		}
		panic("atomic.Value op")
	}
}

func extAtomicPointer(op string) nativeFn {
	return func(g *G, fr *frame, a []value) value {
		p := nonNil(g, a[0])
		c := g.atomicOp(p, "pointer."+op)
		cur := func() value {
			if !c.set {
				return (*value)(nil)
			}
			return c.val
		}
		switch op {
		case "Load":
			return cur()
		case "Store":
			c.val, c.set = a[1], true
			g.ex.heapVersion++
			return nil
		case "Swap":
			old := cur()
			c.val, c.set = a[1], true
			g.ex.heapVersion++
			return old
		case "CompareAndSwap":
			if cur().(*value) == a[1].(*value) {
				c.val, c.set = a[2], true
				g.ex.heapVersion++
				return true
			}
			return false
		}
		panic("atomic.Pointer op")
	}
}

// ---- context

func (ex *Exec) background() *CtxNode {
	if ex.ctxBg == nil {
		ex.ctxBg = ex.newCtx(nil, false)
	}
	return ex.ctxBg
}

func (ex *Exec) ctxErr(name string) value {
	cp := ex.prog.prog.ImportedPackage("context")
	gl := cp.Var(name)
	return *ex.globalOf(gl)
}

func (ex *Exec) globalOf(gl *ssa.Global) *value {
	if p, ok := ex.globals[gl]; ok {
		return p
	}
	return ex.globalAddr(gl)
}

func extWithCancel(g *G, fr *frame, a []value) value {
	p := ctxOf(a[0])
	if p == nil {
		panic(targetPanic{v: iface{t: types.Typ[types.String], v: "cannot create context from nil parent"}, msg: "cannot create context from nil parent"})
	}
	n := g.ex.newCtx(p, true)
	cancel := nativeFn(func(g *G, fr *frame, args []value) value {
		g.visible(&pendOp{kind: "ctx.cancel", obj: n, enabled: alwaysEnabled})
		g.trace("cancel ctx%d", n.id)
		n.cancel(g, g.ex.ctxErr("Canceled"))
		return nil
	})
	return tuple{g.ex.ctxValue(n), cancel}
}

// ---- errors.Is / errors.As (documented algorithm)

var errorIface = types.Universe.Lookup("error").Type().Underlying().(*types.Interface)

func extErrorsIs(g *G, fr *frame, a []value) value {
	err, target := a[0].(iface), a[1].(iface)
	if err.t == nil || target.t == nil {
		return err.t == nil && target.t == nil
	}
	return errorsIs(g, fr, err, target, types.Comparable(target.t), 0)
}

func errorsIs(g *G, fr *frame, err, target iface, cmp bool, depth int) bool {
	if depth > 200 {
		panic(abortPath{"unwind", "errors.Is chain depth"})
	}
	for {
		if cmp && sameType(err.t, target.t) {
			if g.ex.Branch(g, eqTermV(g, err.t, err.v, target.v)) {
				return true
			}
		}
		if m := g.ex.prog.method(err.t, "Is"); m != nil && sigIs(m.Signature, "error", "bool") {
			r := call(g, fr, 0, m, []value{err.v, target})
			if b, ok := r.(bool); ok {
				if b {
					return true
				}
			} else if g.ex.Branch(g, r.(Sym).T) {
				return true
			}
		}
		if m := g.ex.prog.method(err.t, "Unwrap"); m != nil {
			res := m.Signature.Results()
			if res.Len() == 1 {
				if types.Identical(res.At(0).Type(), types.Universe.Lookup("error").Type()) && m.Signature.Params().Len() == 0 {
					n := call(g, fr, 0, m, []value{err.v}).(iface)
					if n.t == nil {
						return false
					}
					err = n
					continue
				}
				if sl, ok := res.At(0).Type().Underlying().(*types.Slice); ok && types.Identical(sl.Elem(), types.Universe.Lookup("error").Type()) {
					for _, e := range call(g, fr, 0, m, []value{err.v}).([]value) {
						ei := e.(iface)
						if ei.t == nil {
							continue
						}
						if errorsIs(g, fr, ei, target, cmp, depth+1) {
							return true
						}
					}
					return false
				}
			}
		}
		return false
	}
}

func sigIs(sig *types.Signature, param, result string) bool {
	if sig.Params().Len() != 1 || sig.Results().Len() != 1 {
		return false
	}
	return sig.Params().At(0).Type().String() == param && sig.Results().At(0).Type().String() == result
}

func extErrorsAs(g *G, fr *frame, a []value) value {
	err, target := a[0].(iface), a[1].(iface)
	if err.t == nil {
		return false
	}
	if target.t == nil {
		panic(targetPanic{v: iface{t: types.Typ[types.String], v: "errors: target cannot be nil"}, msg: "errors: target cannot be nil"})
	}
	pt, ok := target.t.Underlying().(*types.Pointer)
	if !ok || target.v.(*value) == nil {
		panic(targetPanic{v: iface{t: types.Typ[types.String], v: "errors: target must be a non-nil pointer"}, msg: "errors: target must be a non-nil pointer"})
	}
	return errorsAs(g, fr, err, target, pt.Elem(), 0)
}

func errorsAs(g *G, fr *frame, err, target iface, tt types.Type, depth int) bool {
	if depth > 200 {
		panic(abortPath{"unwind", "errors.As chain depth"})
	}
	for {
		if it, ok := tt.Underlying().(*types.Interface); ok {
			if types.Implements(err.t, it) {
				*target.v.(*value) = err
				return true
			}
		} else if types.Identical(err.t, tt) {
			store(tt, target.v.(*value), err.v)
			return true
		}
		if m := g.ex.prog.method(err.t, "As"); m != nil && m.Signature.Params().Len() == 1 && m.Signature.Results().Len() == 1 {
			if b, ok := call(g, fr, 0, m, []value{err.v, target}).(bool); ok && b {
				return true
			}
		}
		if m := g.ex.prog.method(err.t, "Unwrap"); m != nil {
			res := m.Signature.Results()
			if res.Len() == 1 && m.Signature.Params().Len() == 0 {
				if types.Identical(res.At(0).Type(), types.Universe.Lookup("error").Type()) {
					n := call(g, fr, 0, m, []value{err.v}).(iface)
					if n.t == nil {
						return false
					}
					err = n
					continue
				}
				if sl, ok := res.At(0).Type().Underlying().(*types.Slice); ok && types.Identical(sl.Elem(), types.Universe.Lookup("error").Type()) {
					for _, e := range call(g, fr, 0, m, []value{err.v}).([]value) {
						ei := e.(iface)
						if ei.t == nil {
							continue
						}
						if errorsAs(g, fr, ei, target, tt, depth+1) {
							return true
						}
					}
					return false
				}
			}
		}
		return false
	}
}

// ---- fmt

func nativeArg(g *G, fr *frame, v value, depth int) interface{} {
	switch v := v.(type) {
	case Sym:
		return "<sym>"
	case iface:
		if v.t == nil {
			return nil
		}
		if depth < 4 {
			if m := g.ex.prog.method(v.t, "Error"); m != nil && m.Signature.Params().Len() == 0 {
				if s, ok := call(g, fr, 0, m, []value{v.v}).(string); ok {
					return fmtErr(s)
				}
			}
			if m := g.ex.prog.method(v.t, "String"); m != nil && m.Signature.Params().Len() == 0 && m.Signature.Results().Len() == 1 {
				if s, ok := call(g, fr, 0, m, []value{v.v}).(string); ok {
					return s
				}
			}
		}
		return nativeArg(g, fr, v.v, depth+1)
	case bool, int, int8, int16, int32, int64, uint, uint8, uint16, uint32, uint64, uintptr, float32, float64, string, complex64, complex128:
		return v
	case []value:
		out := make([]interface{}, len(v))
		for i := range v {
			out[i] = nativeArg(g, fr, v[i], depth+1)
		}
		return out
	}
	return toString(v)
}

type fmtErr string

func (e fmtErr) Error() string { return string(e) }

func fmtSprintf(g *G, format string, args []value) string {
	na := make([]interface{}, len(args))
	for i, a := range args {
		na[i] = nativeArg(g, g.top, a, 0)
	}
	format = strings.ReplaceAll(format, "%w", "%v")
	return fmt.Sprintf(format, na...)
}

func fmtSprint(g *G, args []value, sep string) string {
	na := make([]interface{}, len(args))
	for i, a := range args {
		na[i] = nativeArg(g, g.top, a, 0)
	}
	if sep != "" {
		s := fmt.Sprintln(na...)
		return s[:len(s)-1]
	}
	return fmt.Sprint(na...)
}

func extErrorf(g *G, fr *frame, a []value) value {
	format := a[0].(string)
	args := a[1].([]value)
	msg := fmtSprintf(g, format, args)
	// operands of %w verbs, in order
	var wrapped []value
	argi := 0
	for i := 0; i < len(format); i++ {
		if format[i] != '%' {
			continue
		}
		i++
		for i < len(format) && strings.ContainsRune("+-# 0123456789.[]*", rune(format[i])) {
			i++
		}
		if i >= len(format) {
			break
		}
		if format[i] == '%' {
			continue
		}
		if format[i] == 'w' && argi < len(args) {
			if it, ok := args[argi].(iface); ok && it.t != nil && types.Implements(it.t, errorIface) {
				wrapped = append(wrapped, it)
			}
		}
		argi++
	}
	fp := g.ex.prog.prog.ImportedPackage("fmt")
	switch len(wrapped) {
	case 0:
		ep := g.ex.prog.prog.ImportedPackage("errors")
		t := ep.Type("errorString").Object().Type()
		var cell value = structure{msg}
		return iface{t: types.NewPointer(t), v: &cell}
	case 1:
		t := fp.Type("wrapError").Object().Type()
		var cell value = structure{msg, wrapped[0]}
		return iface{t: types.NewPointer(t), v: &cell}
	default:
		t := fp.Type("wrapErrors").Object().Type()
		var cell value = structure{msg, append([]value(nil), wrapped...)}
		return iface{t: types.NewPointer(t), v: &cell}
	}
}

// ---- sort.Slice / sort.SliceStable: insertion sort driving the interpreted
// less closure. The non-stable variant inserts *before* equal elements so a
// change from SliceStable to Slice is observable.

func extSortSlice(stable bool) nativeFn {
	return func(g *G, fr *frame, a []value) value {
		sl := a[0].(iface).v.([]value)
		less := a[1]
		if !stable {
			// sort.Slice's contract leaves the order of equal elements open; the
			// real implementation happens to be stable below 13 elements. A
			// counterexample that relies on this freedom is contract-level.
			note := "contract-stub: sort.Slice may reorder equal elements (natively only for n>12)"
			has := false
			for _, n := range g.ex.notes {
				if n == note {
					has = true
				}
			}
			if !has {
				g.ex.notes = append(g.ex.notes, note)
			}
		}
		lt := func(i, j int) bool {
			r := call(g, fr, 0, less, []value{i, j})
			if b, ok := r.(bool); ok {
				return b
			}
			return g.ex.Branch(g, r.(Sym).T)
		}
		for i := 1; i < len(sl); i++ {
			for j := i; j > 0; j-- {
				var mv bool
				if stable {
					mv = lt(j, j-1)
				} else {
					mv = !lt(j-1, j)
				}
				if !mv {
					break
				}
				sl[j], sl[j-1] = sl[j-1], sl[j]
			}
		}
		return nil
	}
}
