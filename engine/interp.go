package main

// SSA interpreter core. Derived from golang.org/x/tools/go/ssa/interp
// (BSD licence): same instruction semantics, with symbolic scalars, modelled
// concurrency objects, explicit nil/bounds panics and a race monitor hook on
// every load and store.

import (
	"fmt"
	"go/token"
	"go/types"
	"runtime"
	"strings"

	"golang.org/x/tools/go/ssa"
)

type continuation int

const (
	kNext continuation = iota
	kReturn
	kJump
)

type deferred struct {
	fn    value
	args  []value
	instr *ssa.Defer
	tail  *deferred
}

type frame struct {
	g                *G
	caller           *frame
	fn               *ssa.Function
	block, prevBlock *ssa.BasicBlock
	env              map[ssa.Value]value
	locals           []value
	defers           *deferred
	result           value
	panicking        bool
	panic            interface{}
	phitemps         []value
	visits           []int32
	curInstr         ssa.Instruction
	pc               int
}

func (fr *frame) get(key ssa.Value) value {
	switch key := key.(type) {
	case nil:
		return nil
	case *ssa.Function, *ssa.Builtin:
		return key
	case *ssa.Const:
		return constValue(key)
	case *ssa.Global:
		if r, ok := fr.g.ex.globals[key]; ok {
			return r
		}
		return fr.g.ex.globalAddr(key)
	}
	if r, ok := fr.env[key]; ok {
		return r
	}
	panic(fmt.Sprintf("get: no value for %T: %v in %s", key, key.Name(), fr.fn))
}

// returnOperand mimics the gc compiler where the spec leaves the order open:
// in `return v, f()` go/ssa reads the variable v before the call, gc
// evaluates the calls of the statement first and reads plain variables
// afterwards (Iterator.Slice relies on it). A result operand that is a load of
// a local variable cell issued in the returning block before a call of the
// same block is re-read at the return.
func (fr *frame) returnOperand(g *G, ret *ssa.Return, r ssa.Value) value {
	u, ok := r.(*ssa.UnOp)
	if !ok || u.Op != token.MUL || u.Block() != ret.Block() {
		return fr.get(r)
	}
	switch u.X.(type) {
	case *ssa.Alloc, *ssa.FreeVar:
	default:
		return fr.get(r)
	}
	seenLoad, callAfter := false, false
	for _, in := range ret.Block().Instrs {
		if in == ssa.Instruction(u) {
			seenLoad = true
			continue
		}
		if seenLoad {
			if _, isCall := in.(*ssa.Call); isCall {
				callAfter = true
			}
		}
	}
	if !callAfter {
		return fr.get(r)
	}
	return unop(g, u, fr.get(u.X))
}

func passThrough(p interface{}) bool {
	switch p.(type) {
	case killSignal, abortPath:
		return true
	}
	return false
}

func (fr *frame) runDefer(d *deferred) {
	var ok bool
	defer func() {
		if !ok {
			p := recover()
			if passThrough(p) {
				panic(p)
			}
			fr.panicking = true
			fr.panic = p
		}
	}()
	call(fr.g, fr, d.instr.Pos(), d.fn, d.args)
	ok = true
}

func (fr *frame) runDefers() {
	for d := fr.defers; d != nil; d = d.tail {
		fr.runDefer(d)
	}
	fr.defers = nil
	if fr.panicking {
		panic(fr.panic)
	}
}

func (g *G) pos(p token.Pos) string {
	if p == token.NoPos {
		return "?"
	}
	ps := g.ex.prog.fset.Position(p)
	f := ps.Filename
	if i := strings.LastIndex(f, "/repo/"); i >= 0 {
		f = f[i+6:]
	}
	return fmt.Sprintf("%s:%d", f, ps.Line)
}

func visitInstr(fr *frame, instr ssa.Instruction) continuation {
	g := fr.g
	switch instr := instr.(type) {
	case *ssa.DebugRef:
	case *ssa.UnOp:
		fr.env[instr] = unop(g, instr, fr.get(instr.X))
	case *ssa.BinOp:
		fr.env[instr] = binop(g, instr.Op, instr.X.Type(), fr.get(instr.X), fr.get(instr.Y))
	case *ssa.Call:
		fn, args := prepareCall(fr, &instr.Call)
		fr.env[instr] = call(g, fr, instr.Pos(), fn, args)
	case *ssa.ChangeInterface:
		fr.env[instr] = fr.get(instr.X)
	case *ssa.ChangeType:
		fr.env[instr] = fr.get(instr.X)
	case *ssa.Convert:
		fr.env[instr] = conv(g, instr.Type(), instr.X.Type(), fr.get(instr.X))
	case *ssa.MultiConvert:
		fr.env[instr] = conv(g, instr.Type(), instr.X.Type(), fr.get(instr.X))
	case *ssa.SliceToArrayPointer:
		x := fr.get(instr.X).([]value)
		arr := derefType(instr.Type()).Underlying().(*types.Array)
		if arr.Len() > int64(len(x)) {
			rtPanic(g, "cannot convert slice to array pointer: length too small")
		}
		if x == nil {
			fr.env[instr] = zero(instr.Type())
		} else {
			v := value(array(x[:arr.Len()]))
			fr.env[instr] = &v
		}
	case *ssa.MakeInterface:
		fr.env[instr] = iface{t: instr.X.Type(), v: fr.get(instr.X)}
	case *ssa.Extract:
		fr.env[instr] = fr.get(instr.Tuple).(tuple)[instr.Index]
	case *ssa.Slice:
		fr.env[instr] = sliceOp(g, fr.get(instr.X), fr.get(instr.Low), fr.get(instr.High), fr.get(instr.Max))
	case *ssa.Return:
		switch len(instr.Results) {
		case 0:
		case 1:
			fr.result = fr.get(instr.Results[0])
		default:
			var res []value
			for _, r := range instr.Results {
				res = append(res, fr.returnOperand(g, instr, r))
			}
			fr.result = tuple(res)
		}
		fr.block = nil
		return kReturn
	case *ssa.RunDefers:
		fr.runDefers()
	case *ssa.Panic:
		panic(targetPanic{v: fr.get(instr.X)})
	case *ssa.Send:
		g.chanSend(fr.get(instr.Chan).(*Chan), copyVal(fr.get(instr.X)))
	case *ssa.Store:
		// `return out, f()` with a named result out is lowered by go/ssa to
		// t1 = *out; ...f()...; *out = t1: an early read written back after
		// the call. gc reads the variable after the calls of the statement,
		// which makes the write-back a no-op (see returnOperand).
		if u, ok := instr.Val.(*ssa.UnOp); ok && u.Op == token.MUL && u.X == instr.Addr && u.Block() == instr.Block() {
			if _, isAlloc := u.X.(*ssa.Alloc); isAlloc {
				break
			}
		}
		g.storePtr(derefType(instr.Addr.Type()), fr.get(instr.Addr), fr.get(instr.Val))
	case *ssa.If:
		succ := 1
		cond := fr.get(instr.Cond)
		var b bool
		if s, ok := cond.(Sym); ok {
			b = g.ex.Branch(g, s.T)
		} else {
			b = cond.(bool)
		}
		if b {
			succ = 0
		}
		fr.prevBlock, fr.block = fr.block, fr.block.Succs[succ]
		return kJump
	case *ssa.Jump:
		fr.prevBlock, fr.block = fr.block, fr.block.Succs[0]
		return kJump
	case *ssa.Defer:
		fn, args := prepareCall(fr, &instr.Call)
		defers := &fr.defers
		if instr.DeferStack != nil {
			if into := fr.get(instr.DeferStack); into != nil {
				defers = into.(**deferred)
			}
		}
		*defers = &deferred{fn: fn, args: args, instr: instr, tail: *defers}
	case *ssa.Go:
		fn, args := prepareCall(fr, &instr.Call)
		g.ex.spawn(g, fn, args, !g.ex.prog.isHarnessPos(instr.Pos()), g.pos(instr.Pos()))
	case *ssa.MakeChan:
		c := g.ex.newChan(int(concInt(g, fr.get(instr.Size))))
		c.site = strings.TrimPrefix(g.ex.prog.fset.Position(instr.Pos()).String(), g.ex.prog.repo+"/")
		fr.env[instr] = c
	case *ssa.Alloc:
		var addr *value
		if instr.Heap {
			addr = new(value)
			fr.env[instr] = addr
		} else {
			addr = fr.env[instr].(*value)
		}
		*addr = zero(derefType(instr.Type()))
	case *ssa.MakeSlice:
		capv := concInt(g, fr.get(instr.Cap))
		lenv := concInt(g, fr.get(instr.Len))
		if lenv < 0 || lenv > capv || capv > 1<<24 {
			rtPanic(g, "makeslice: len out of range")
		}
		sl := make([]value, capv)
		tElt := instr.Type().Underlying().(*types.Slice).Elem()
		for i := range sl {
			sl[i] = zero(tElt)
		}
		fr.env[instr] = sl[:lenv]
	case *ssa.MakeMap:
		fr.env[instr] = makeMap(instr.Type().Underlying().(*types.Map).Key())
	case *ssa.Range:
		x := fr.get(instr.X)
		switch x := x.(type) {
		case *omap:
			it := &omapIter{m: x}
			if x != nil {
				g.mapAccess(x, false)
				it.total = len(x.entries)
				if g.ex.cfg.MapRangeRotate && x.len() > 1 {
					it.start = g.ex.choose('i', it.total)
				}
			}
			fr.env[instr] = it
		case string:
			fr.env[instr] = newStringIter(x)
		default:
			panic(fmt.Sprintf("cannot range over %T", x))
		}
	case *ssa.Next:
		fr.env[instr] = fr.get(instr.Iter).(iter).next()
	case *ssa.FieldAddr:
		p := fr.get(instr.X).(*value)
		if p == nil {
			rtPanic(g, "invalid memory address or nil pointer dereference")
		}
		fr.env[instr] = &(*p).(structure)[instr.Field]
	case *ssa.Field:
		fr.env[instr] = fr.get(instr.X).(structure)[instr.Field]
	case *ssa.IndexAddr:
		x := fr.get(instr.X)
		idx := fr.get(instr.Index)
		var base []value
		switch x := x.(type) {
		case []value:
			base = x
		case *value:
			if x == nil {
				rtPanic(g, "invalid memory address or nil pointer dereference")
			}
			base = []value((*x).(array))
		default:
			panic(fmt.Sprintf("unexpected x type in IndexAddr: %T", x))
		}
		if s, ok := idx.(Sym); ok {
			c := g.ex.tc
			it := c.Resize(s.T, 64, kindSigned(s.K))
			oob := c.Or(c.BVCmp("bvslt", it, c.BV(0, 64)), c.BVCmp("bvsge", it, c.BV(uint64(len(base)), 64)))
			if g.ex.Branch(g, oob) {
				rtPanic(g, fmt.Sprintf("index out of range [sym] with length %d", len(base)))
			}
			if len(base) == 1 {
				fr.env[instr] = &base[0]
			} else if g.ex.cfg.ConcretizeIndex {
				fr.env[instr] = &base[int64(g.ex.Concretize(g, it))]
			} else {
				fr.env[instr] = symAddr{base: base, idx: it}
			}
		} else {
			i := asInt64(idx)
			if i < 0 || i >= int64(len(base)) {
				rtPanic(g, fmt.Sprintf("index out of range [%d] with length %d", i, len(base)))
			}
			fr.env[instr] = &base[i]
		}
	case *ssa.Index:
		x := fr.get(instr.X)
		i := concInt(g, fr.get(instr.Index))
		switch x := x.(type) {
		case array:
			if i < 0 || i >= int64(len(x)) {
				rtPanic(g, fmt.Sprintf("index out of range [%d] with length %d", i, len(x)))
			}
			fr.env[instr] = x[i]
		case string:
			if i < 0 || i >= int64(len(x)) {
				rtPanic(g, fmt.Sprintf("index out of range [%d] with length %d", i, len(x)))
			}
			fr.env[instr] = x[i]
		default:
			panic(fmt.Sprintf("unexpected x type in Index: %T", x))
		}
	case *ssa.Lookup:
		x := fr.get(instr.X)
		switch x := x.(type) {
		case *omap:
			var v value
			var ok bool
			if x != nil {
				g.mapAccess(x, false)
				v, ok = x.lookup(g.mapKey(x, fr.get(instr.Index)))
			}
			if !ok {
				v = zero(instr.X.Type().Underlying().(*types.Map).Elem())
			} else {
				v = copyVal(v)
			}
			if instr.CommaOk {
				v = tuple{v, ok}
			}
			fr.env[instr] = v
		case string:
			i := concInt(g, fr.get(instr.Index))
			if i < 0 || i >= int64(len(x)) {
				rtPanic(g, "index out of range")
			}
			fr.env[instr] = x[i]
		default:
			panic(fmt.Sprintf("unexpected x type in Lookup: %T", x))
		}
	case *ssa.MapUpdate:
		m := fr.get(instr.Map).(*omap)
		if m == nil {
			panic(targetPanic{v: iface{t: g.ex.prog.runtimeErrorString, v: "assignment to entry in nil map"}, msg: "assignment to entry in nil map"})
		}
		g.mapAccess(m, true)
		m.insert(g.mapKey(m, fr.get(instr.Key)), copyVal(fr.get(instr.Value)))
	case *ssa.TypeAssert:
		fr.env[instr] = typeAssert(g, instr, fr.get(instr.X).(iface))
	case *ssa.MakeClosure:
		var bindings []value
		for _, binding := range instr.Bindings {
			bindings = append(bindings, fr.get(binding))
		}
		fr.env[instr] = &closure{instr.Fn.(*ssa.Function), bindings}
	case *ssa.Phi:
		panic("unreachable: phi")
	case *ssa.Select:
		fr.env[instr] = g.selectOp(fr, instr)
	default:
		panic(fmt.Sprintf("unexpected instruction: %T", instr))
	}
	return kNext
}

// mapKey resolves a (possibly symbolic) scalar key against the keys already
// in m: one decision point "k == k_i" per live entry whose equality with k is
// not decided by the path condition; the entry's own key is returned on a
// match, k itself (a key distinct from every present one on this path)
// otherwise. Composite keys with symbolic parts are made concrete instead.
func (g *G) mapKey(m *omap, k value) value {
	ks, isSym := k.(Sym)
	if m == nil || (!isSym && !m.symKeys) {
		if isSym {
			return k
		}
		return g.concKey(k)
	}
	if !isSym && hasSym(k) {
		return g.concKey(k)
	}
	_ = ks
	for i := range m.entries {
		e := &m.entries[i]
		if e.deleted {
			continue
		}
		if _, esym := e.k.(Sym); !esym && !isSym {
			if equals(m.keyType, e.k, k) {
				return e.k
			}
			continue
		}
		t := eqTermV(g, m.keyType, e.k, k)
		if t.IsTrue() {
			return e.k
		}
		if t.IsFalse() {
			continue
		}
		if g.ex.Branch(g, t) {
			return e.k
		}
	}
	return k
}

// concKey makes a map key concrete (scalar keys, or structs of scalars).
func (g *G) concKey(k value) value {
	switch k := k.(type) {
	case Sym:
		b := g.ex.Concretize(g, k.T)
		return mkScalar(k.K, b)
	case structure:
		if hasSym(k) {
			n := make(structure, len(k))
			for i := range k {
				n[i] = g.concKey(k[i])
			}
			return n
		}
	case array:
		if hasSym(k) {
			n := make(array, len(k))
			for i := range k {
				n[i] = g.concKey(k[i])
			}
			return n
		}
	case iface:
		if hasSym(k.v) {
			return iface{t: k.t, v: g.concKey(k.v)}
		}
	}
	return k
}

func prepareCall(fr *frame, call *ssa.CallCommon) (fn value, args []value) {
	v := fr.get(call.Value)
	if call.Method == nil {
		fn = v
	} else {
		recv := v.(iface)
		if recv.t == nil {
			rtPanic(fr.g, "invalid memory address or nil pointer dereference (method call on nil interface)")
		}
		if nm, ok := recv.v.(nativeMethods); ok {
			if f := nm.method(call.Method.Name()); f != nil {
				fn = f
				args = append(args, recv.v)
				for _, arg := range call.Args {
					args = append(args, fr.get(arg))
				}
				return
			}
		}
		f := fr.g.ex.prog.prog.LookupMethod(recv.t, call.Method.Pkg(), call.Method.Name())
		if f == nil {
			panic(fmt.Sprintf("method set for dynamic type %v does not contain %s", recv.t, call.Method))
		}
		fn = f
		args = append(args, recv.v)
	}
	for _, arg := range call.Args {
		args = append(args, fr.get(arg))
	}
	return
}

// nativeFn is an engine-implemented function value.
type nativeFn func(g *G, fr *frame, args []value) value

type nativeMethods interface {
	method(name string) nativeFn
}

func call(g *G, caller *frame, callpos token.Pos, fn value, args []value) value {
	switch fn := fn.(type) {
	case *ssa.Function:
		if fn == nil {
			rtPanic(g, "invalid memory address or nil pointer dereference (call of nil func)")
		}
		return callSSA(g, caller, callpos, fn, args, nil)
	case *closure:
		return callSSA(g, caller, callpos, fn.Fn, args, fn.Env)
	case *ssa.Builtin:
		return callBuiltin(g, caller, callpos, fn, args)
	case nativeFn:
		return fn(g, caller, args)
	}
	panic(fmt.Sprintf("cannot call %T", fn))
}

func callSSA(g *G, caller *frame, callpos token.Pos, fn *ssa.Function, args []value, env []value) value {
	ex := g.ex
	if ext := ex.prog.extFor(fn); ext != nil {
		fr := &frame{g: g, caller: caller, fn: fn}
		if caller != nil {
			// remember call position for diagnostics
			_ = callpos
		}
		return ext(g, fr, args)
	}
	if fn.Blocks == nil {
		panic(abortPath{"unsupported", "no code for function: " + fn.String()})
	}
	if fn.TypeParams().Len() > 0 && len(fn.TypeArgs()) == 0 {
		panic("generic function body reached: " + fn.String())
	}
	g.depth++
	if g.depth > ex.cfg.MaxDepth {
		panic(abortPath{"unwind", "recursion depth at " + fn.String()})
	}
	ex.noteFn(fn)
	fr := &frame{g: g, caller: caller, fn: fn}
	fr.env = make(map[ssa.Value]value, 16)
	fr.block = fn.Blocks[0]
	fr.locals = make([]value, len(fn.Locals))
	for i, l := range fn.Locals {
		fr.locals[i] = zero(derefType(l.Type()))
		fr.env[l] = &fr.locals[i]
	}
	for i, p := range fn.Params {
		fr.env[p] = args[i]
	}
	for i, fv := range fn.FreeVars {
		fr.env[fv] = env[i]
	}
	g.top = fr
	for fr.block != nil {
		runFrame(fr)
	}
	g.top = caller
	g.depth--
	return fr.result
}

func runFrame(fr *frame) {
	defer func() {
		if fr.block == nil {
			return // normal return
		}
		p := recover()
		if passThrough(p) {
			panic(p)
		}
		if _, ok := p.(targetPanic); !ok {
			// engine failure (or native runtime error inside the engine)
			if _, isEng := p.(engineError); !isEng {
				buf := make([]byte, 1<<14)
				n := runtime.Stack(buf, false)
				p = engineError{fmt.Sprintf("%v\nat %s in %s\n%s", p, fr.g.pos(instrPos(fr.curInstr)), fr.fn, buf[:n])}
			}
			panic(p)
		}
		fr.panicking = true
		fr.panic = p
		fr.g.depthAt(fr)
		fr.runDefers()
		fr.block = fr.fn.Recover
	}()

	ex := fr.g.ex
	for {
		if fr.visits == nil {
			fr.visits = make([]int32, len(fr.fn.Blocks))
		}
		fr.visits[fr.block.Index]++
		if int(fr.visits[fr.block.Index]) > ex.cfg.Unwind {
			panic(abortPath{"unwind", fmt.Sprintf("loop bound %d at %s in %s", ex.cfg.Unwind, fr.g.pos(instrPos(fr.block.Instrs[0])), fr.fn)})
		}
		nonPhis := executePhis(fr)
		for pc, instr := range nonPhis {
			fr.pc = pc
			ex.steps++
			if ex.steps > ex.cfg.MaxSteps {
				panic(abortPath{"budget", "instruction budget"})
			}
			fr.curInstr = instr
			if visitInstr(fr, instr) == kReturn {
				return
			}
		}
	}
}

type engineError struct{ msg string }

func instrPos(i ssa.Instruction) token.Pos {
	if i == nil {
		return token.NoPos
	}
	return i.Pos()
}

// depthAt resets the goroutine's depth bookkeeping after a panic unwound
// frames above fr.
func (g *G) depthAt(fr *frame) {
	d := 0
	for f := fr; f != nil; f = f.caller {
		d++
	}
	g.depth = d
	g.top = fr
}

func executePhis(fr *frame) []ssa.Instruction {
	firstNonPhi := -1
	for i, instr := range fr.block.Instrs {
		if _, ok := instr.(*ssa.Phi); !ok {
			firstNonPhi = i
			break
		}
	}
	nonPhis := fr.block.Instrs[firstNonPhi:]
	if firstNonPhi > 0 {
		phis := fr.block.Instrs[:firstNonPhi]
		predIndex := -1
		for i, p := range fr.block.Preds {
			if p == fr.prevBlock {
				predIndex = i
				break
			}
		}
		fr.phitemps = fr.phitemps[:0]
		for _, phi := range phis {
			phi := phi.(*ssa.Phi)
			fr.phitemps = append(fr.phitemps, fr.get(phi.Edges[predIndex]))
		}
		for i, phi := range phis {
			fr.env[phi.(*ssa.Phi)] = fr.phitemps[i]
		}
	}
	return nonPhis
}

func doRecover(g *G, caller *frame) value {
	if caller != nil && !caller.panicking && caller.caller != nil && caller.caller.panicking {
		caller.caller.panicking = false
		p := caller.caller.panic
		caller.caller.panic = nil
		switch p := p.(type) {
		case targetPanic:
			return p.v
		default:
			panic(fmt.Sprintf("unexpected panic type %T in target call to recover()", p))
		}
	}
	return iface{}
}

// ---- memory access with nil checks, symbolic addresses and race monitor

func (g *G) loadPtr(T types.Type, p value) value {
	switch p := p.(type) {
	case *value:
		if p == nil {
			rtPanic(g, "invalid memory address or nil pointer dereference")
		}
		if g.ex.mon != nil {
			g.ex.mon.access(g, p, T, false)
		}
		return load(T, p)
	case symAddr:
		c := g.ex.tc
		// ite chain over the cells
		var k types.BasicKind
		var r *Term
		for i := len(p.base) - 1; i >= 0; i-- {
			cell := p.base[i]
			if kindOf(cell) == types.Invalid || kindOf(cell) == types.String {
				// aggregate element: fall back to a concrete index
				i := int64(g.ex.Concretize(g, p.idx))
				return g.loadPtr(T, &p.base[i])
			}
			k = kindOf(cell)
			t := termOf(c, cell)
			if r == nil {
				r = t
			} else {
				r = c.Ite(c.Eq(p.idx, c.BV(uint64(i), 64)), t, r)
			}
		}
		return valOf(r, k)
	}
	panic(fmt.Sprintf("loadPtr: %T", p))
}

func (g *G) storePtr(T types.Type, p value, v value) {
	switch p := p.(type) {
	case *value:
		if p == nil {
			rtPanic(g, "invalid memory address or nil pointer dereference")
		}
		if g.ex.mon != nil {
			g.ex.mon.access(g, p, T, true)
		}
		g.ex.heapVersion++
		store(T, p, v)
		return
	case symAddr:
		c := g.ex.tc
		if k := kindOf(v); k == types.Invalid || k == types.String {
			i := int64(g.ex.Concretize(g, p.idx))
			g.storePtr(T, &p.base[i], v)
			return
		}
		nv := termOf(c, v)
		k := kindOf(v)
		for i := range p.base {
			old := termOf(c, p.base[i])
			p.base[i] = valOf(c.Ite(c.Eq(p.idx, c.BV(uint64(i), 64)), nv, old), k)
		}
		g.ex.heapVersion++
		return
	}
	panic(fmt.Sprintf("storePtr: %T", p))
}
