package main

// Solver pipe: one long-lived `z3 -in` per worker; SMT-LIB2 text.
// unknown / (error lines / timeouts are reported as Unknown and retried on
// cvc5 and z3-new one-shot; if all fail the caller treats the query as
// inconclusive.

import (
	"bufio"
	"bytes"
	"fmt"
	"io"
	"os"
	"os/exec"
	"strconv"
	"strings"
	"sync"
	"sync/atomic"
	"time"
)

type Verdict int

const (
	Unsat Verdict = iota
	Sat
	Unknown
)

func (v Verdict) String() string { return [...]string{"unsat", "sat", "unknown"}[v] }

type SolverStats struct {
	Queries   int64
	Sat       int64
	Unsat     int64
	Unknown   int64
	Fallback  int64
	DiffCheck int64
	NanosZ3   int64
	NanosAlt  int64
}

var gStats SolverStats
var gTimeoutMs = 10000
var gDiffBudget int64 = 50 // first N queries are cross-checked on the other solvers
var gDiffMu sync.Mutex
var gDiffErr string

type Solver struct {
	cmd     *exec.Cmd
	in      io.WriteCloser
	out     *bufio.Reader
	defined map[int]bool
	ctx     *TermCtx
	nAssert int // number of pc conjuncts already asserted
	dead    bool
	log     *os.File
}

func NewSolver() *Solver {
	s := &Solver{}
	s.start()
	return s
}

func (s *Solver) start() {
	s.cmd = exec.Command("z3", "-in")
	in, _ := s.cmd.StdinPipe()
	out, _ := s.cmd.StdoutPipe()
	s.cmd.Stderr = nil
	if err := s.cmd.Start(); err != nil {
		panic("cannot start z3: " + err.Error())
	}
	s.in = in
	s.out = bufio.NewReaderSize(out, 1<<16)
	s.dead = false
	if p := os.Getenv("FSX_SMTLOG"); p != "" && s.log == nil {
		s.log, _ = os.Create(fmt.Sprintf("%s.%d", p, s.cmd.Process.Pid))
	}
}

func (s *Solver) Close() {
	if s.cmd != nil && s.cmd.Process != nil {
		s.in.Close()
		s.cmd.Process.Kill()
		s.cmd.Wait()
	}
}

func (s *Solver) send(txt string) {
	if s.log != nil {
		s.log.WriteString(txt)
	}
	if _, err := io.WriteString(s.in, txt); err != nil {
		s.dead = true
	}
}

// Reset starts a fresh session for a new path / term context.
func (s *Solver) Reset(ctx *TermCtx) {
	if s.dead {
		s.Close()
		s.start()
	}
	s.ctx = ctx
	s.defined = map[int]bool{}
	s.nAssert = 0
	s.send(fmt.Sprintf("(reset)\n(set-option :timeout %d)\n", gTimeoutMs))
}

func (s *Solver) readLine() (string, bool) {
	type res struct {
		l   string
		err error
	}
	ch := make(chan res, 1)
	go func() {
		l, err := s.out.ReadString('\n')
		ch <- res{l, err}
	}()
	select {
	case r := <-ch:
		if r.err != nil {
			s.dead = true
			return "", false
		}
		return strings.TrimSpace(r.l), true
	case <-time.After(time.Duration(gTimeoutMs)*time.Millisecond + 20*time.Second):
		s.dead = true
		s.cmd.Process.Kill()
		return "", false
	}
}

// readSexp reads one balanced s-expression (possibly spanning lines).
func (s *Solver) readSexp() (string, bool) {
	var sb strings.Builder
	depth := 0
	started := false
	for {
		l, ok := s.readLine()
		if !ok {
			return "", false
		}
		sb.WriteString(l)
		sb.WriteByte(' ')
		for _, ch := range l {
			if ch == '(' {
				depth++
				started = true
			} else if ch == ')' {
				depth--
			}
		}
		if started && depth <= 0 {
			return sb.String(), true
		}
		if !started && l != "" {
			return sb.String(), true
		}
	}
}

// Check decides sat(pc ∧ extra). pc is the path condition so far (conjuncts
// are asserted incrementally). If wantModel and the result is Sat, the
// returned model maps every declared variable to its bits.
func (s *Solver) Check(pc []*Term, extra *Term, wantModel bool) (Verdict, map[string]uint64) {
	atomic.AddInt64(&gStats.Queries, 1)
	t0 := time.Now()
	var sb strings.Builder
	for s.nAssert < len(pc) {
		t := pc[s.nAssert]
		s.ctx.Emit(t, s.defined, &sb)
		fmt.Fprintf(&sb, "(assert %s)\n", t.ref())
		s.nAssert++
	}
	if extra != nil {
		s.ctx.Emit(extra, s.defined, &sb)
		fmt.Fprintf(&sb, "(push 1)\n(assert %s)\n", extra.ref())
	}
	sb.WriteString(s.ctx.checkCmd())
	s.send(sb.String())
	l, ok := s.readLine()
	v := Unknown
	var model map[string]uint64
	if ok {
		switch {
		case l == "sat":
			v = Sat
		case l == "unsat":
			v = Unsat
		case strings.HasPrefix(l, "(error"):
			v = Unknown
			fmt.Fprintf(os.Stderr, "solver error line: %s\n", l)
		}
	}
	if v == Sat && wantModel && !s.dead {
		model = s.getModel()
		if model == nil {
			v = Unknown
		}
	}
	if extra != nil && !s.dead {
		s.send("(pop 1)\n")
	}
	atomic.AddInt64(&gStats.NanosZ3, int64(time.Since(t0)))
	if v == Unknown {
		// fall back to other solvers on a standalone script
		atomic.AddInt64(&gStats.Fallback, 1)
		v, model = s.fallback(pc, extra, wantModel)
		if s.dead {
			// restart and re-sync session
			ctx := s.ctx
			s.Reset(ctx)
		}
	} else if atomic.AddInt64(&gDiffBudget, -1) >= 0 {
		s.diff(pc, extra, v)
	}
	switch v {
	case Sat:
		atomic.AddInt64(&gStats.Sat, 1)
	case Unsat:
		atomic.AddInt64(&gStats.Unsat, 1)
	default:
		atomic.AddInt64(&gStats.Unknown, 1)
	}
	return v, model
}

func (s *Solver) getModel() map[string]uint64 {
	model := map[string]uint64{}
	if len(s.ctx.vars) == 0 {
		return model
	}
	var names []string
	for _, v := range s.ctx.vars {
		if s.defined[v.id] {
			names = append(names, v.modelName())
		}
	}
	if len(names) == 0 {
		return model
	}
	s.send("(get-value (" + strings.Join(names, " ") + "))\n")
	txt, ok := s.readSexp()
	if !ok || strings.HasPrefix(txt, "(error") {
		return nil
	}
	parseModel(txt, model)
	return model
}

// parseModel parses "((x #x00ff) (y true) (z #b101))".
func parseModel(txt string, model map[string]uint64) {
	toks := strings.FieldsFunc(txt, func(r rune) bool { return r == '(' || r == ')' || r == ' ' || r == '\n' || r == '\t' })
	for i := 0; i+1 < len(toks); i += 2 {
		name, val := strings.TrimSuffix(toks[i], "__b"), toks[i+1]
		switch {
		case val == "true":
			model[name] = 1
		case val == "false":
			model[name] = 0
		case strings.HasPrefix(val, "#x"):
			u, _ := strconv.ParseUint(val[2:], 16, 64)
			model[name] = u
		case strings.HasPrefix(val, "#b"):
			u, _ := strconv.ParseUint(val[2:], 2, 64)
			model[name] = u
		default:
			// unexpected (e.g. "_ bvN W"): try "(_ bv123 64)" form
			if val == "_" && i+3 < len(toks) && strings.HasPrefix(toks[i+2], "bv") {
				u, _ := strconv.ParseUint(toks[i+2][2:], 10, 64)
				model[name] = u
				i += 2
			}
		}
	}
}

// script renders a standalone query.
func script(ctx *TermCtx, pc []*Term, extra *Term, wantModel bool) string {
	var sb strings.Builder
	def := map[int]bool{}
	for _, t := range pc {
		ctx.Emit(t, def, &sb)
		fmt.Fprintf(&sb, "(assert %s)\n", t.ref())
	}
	if extra != nil {
		ctx.Emit(extra, def, &sb)
		fmt.Fprintf(&sb, "(assert %s)\n", extra.ref())
	}
	sb.WriteString("(check-sat)\n")
	if wantModel {
		var names []string
		for _, v := range ctx.vars {
			if def[v.id] {
				names = append(names, v.modelName())
			}
		}
		if len(names) > 0 {
			sb.WriteString("(get-value (" + strings.Join(names, " ") + "))\n")
		}
	}
	return sb.String()
}

func runOneShot(bin string, args []string, scr string, timeout time.Duration) (Verdict, string) {
	cmd := exec.Command(bin, args...)
	cmd.Stdin = strings.NewReader(scr)
	var out bytes.Buffer
	cmd.Stdout = &out
	if err := cmd.Start(); err != nil {
		return Unknown, ""
	}
	done := make(chan struct{})
	go func() { cmd.Wait(); close(done) }()
	select {
	case <-done:
	case <-time.After(timeout):
		cmd.Process.Kill()
		<-done
		return Unknown, ""
	}
	txt := out.String()
	if strings.Contains(txt, "(error") {
		return Unknown, txt
	}
	first := strings.TrimSpace(strings.SplitN(txt, "\n", 2)[0])
	switch first {
	case "sat":
		return Sat, txt
	case "unsat":
		return Unsat, txt
	}
	return Unknown, txt
}

func altSolvers() [][]string {
	return [][]string{
		{"cvc5", "--lang=smt2", "--produce-models", "--fp-exp"},
		{"z3-new", "-in"},
	}
}

func (s *Solver) fallback(pc []*Term, extra *Term, wantModel bool) (Verdict, map[string]uint64) {
	t0 := time.Now()
	defer func() { atomic.AddInt64(&gStats.NanosAlt, int64(time.Since(t0))) }()
	scr := "(set-option :produce-models true)\n" + script(s.ctx, pc, extra, wantModel)
	for _, alt := range altSolvers() {
		v, txt := runOneShot(alt[0], alt[1:], scr, time.Duration(gTimeoutMs)*time.Millisecond*3)
		if v == Unknown {
			continue
		}
		var model map[string]uint64
		if v == Sat && wantModel {
			model = map[string]uint64{}
			if i := strings.Index(txt, "\n"); i >= 0 {
				parseModel(txt[i+1:], model)
			}
		}
		return v, model
	}
	return Unknown, nil
}

func (s *Solver) diff(pc []*Term, extra *Term, v Verdict) {
	atomic.AddInt64(&gStats.DiffCheck, 1)
	scr := script(s.ctx, pc, extra, false)
	for _, alt := range altSolvers() {
		v2, _ := runOneShot(alt[0], alt[1:], scr, time.Duration(gTimeoutMs)*time.Millisecond)
		if v2 != Unknown && v2 != v {
			gDiffMu.Lock()
			gDiffErr = fmt.Sprintf("solver-diff: z3=%s %s=%s", v, alt[0], v2)
			os.WriteFile("/tmp/fsx-solver-diff.smt2", []byte(scr), 0o644)
			gDiffMu.Unlock()
		}
	}
}
