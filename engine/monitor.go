package main

// Happens-before (vector clock) race monitor over interpreted memory cells.

import (
	"fmt"
	"go/token"
	"go/types"
	"sort"
	"strings"

	"golang.org/x/tools/go/ssa"
)

type epoch struct {
	g   int
	clk int
	pos stackRef
}

type stackRef [3]struct {
	fn  *ssa.Function
	pos token.Pos
}

func (g *G) stackRef() stackRef {
	var r stackRef
	i := 0
	for f := g.top; f != nil && i < 3; f = f.caller {
		r[i].fn = f.fn
		r[i].pos = instrPos(f.curInstr)
		i++
	}
	return r
}

func (g *G) fmtStack(r stackRef) string {
	var parts []string
	for _, e := range r {
		if e.fn == nil {
			break
		}
		parts = append(parts, fmt.Sprintf("%s@%s", shortFn(e.fn), g.pos(e.pos)))
	}
	return strings.Join(parts, " < ")
}

type shadow struct {
	w     epoch
	hasW  bool
	reads []epoch
}

type Monitor struct {
	ex    *Exec
	cells map[*value]*shadow
	maps  map[*omap]*shadow
	seen  map[string]bool
}

func newMonitor(ex *Exec) *Monitor {
	return &Monitor{ex: ex, cells: map[*value]*shadow{}, maps: map[*omap]*shadow{}, seen: map[string]bool{}}
}

func (m *Monitor) reset() {
	m.cells = map[*value]*shadow{}
	m.maps = map[*omap]*shadow{}
}

func (m *Monitor) initG(g *G) {
	g.vc = make([]int, g.id+1)
	g.vc[g.id] = 1
}

func (m *Monitor) fork(parent, child *G) {
	child.vc = make([]int, child.id+1)
	copy(child.vc, parent.vc)
	child.vc[child.id] = 1
	parent.vc[parent.id]++
}

func (m *Monitor) exit(g *G) {}

func (m *Monitor) releaseVC(g *G) []int {
	vc := append([]int(nil), g.vc...)
	g.vc[g.id]++
	return vc
}

func (m *Monitor) acquireVC(g *G, vc []int) {
	if len(vc) > len(g.vc) {
		n := make([]int, len(vc))
		copy(n, g.vc)
		g.vc = n
	}
	for i, c := range vc {
		if c > g.vc[i] {
			g.vc[i] = c
		}
	}
}

func (m *Monitor) joinVC(a, b []int) []int {
	if len(b) > len(a) {
		a, b = b, a
	}
	out := append([]int(nil), a...)
	for i, c := range b {
		if c > out[i] {
			out[i] = c
		}
	}
	return out
}

func hb(e epoch, vc []int) bool {
	return e.g < len(vc) && e.clk <= vc[e.g]
}

func (m *Monitor) access(g *G, p *value, T types.Type, write bool) {
	if len(m.ex.gs) <= 1 {
		return
	}
	switch T := T.Underlying().(type) {
	case *types.Struct:
		s, ok := (*p).(structure)
		if !ok {
			return
		}
		for i := range s {
			m.access(g, &s[i], T.Field(i).Type(), write)
		}
		return
	case *types.Array:
		a, ok := (*p).(array)
		if !ok {
			return
		}
		for i := range a {
			m.access(g, &a[i], T.Elem(), write)
		}
		return
	}
	sh := m.cells[p]
	if sh == nil {
		sh = &shadow{}
		m.cells[p] = sh
	}
	m.check(g, sh, write, "")
}

func (m *Monitor) mapAccess(g *G, mp *omap, write bool) {
	if len(m.ex.gs) <= 1 {
		return
	}
	sh := m.maps[mp]
	if sh == nil {
		sh = &shadow{}
		m.maps[mp] = sh
	}
	m.check(g, sh, write, "map ")
}

func (m *Monitor) check(g *G, sh *shadow, write bool, what string) {
	me := epoch{g: g.id, clk: g.vc[g.id]}
	if sh.hasW && sh.w.g != g.id && !hb(sh.w, g.vc) {
		m.report(g, what, "write", sh.w, write)
	}
	if write {
		for _, r := range sh.reads {
			if r.g != g.id && !hb(r, g.vc) {
				m.report(g, what, "read", r, write)
			}
		}
		me.pos = g.stackRef()
		sh.w = me
		sh.hasW = true
		sh.reads = sh.reads[:0]
		return
	}
	for i := range sh.reads {
		if sh.reads[i].g == g.id {
			if sh.reads[i].clk != me.clk {
				sh.reads[i].clk = me.clk
				sh.reads[i].pos = g.stackRef()
			}
			return
		}
	}
	me.pos = g.stackRef()
	sh.reads = append(sh.reads, me)
}

func (m *Monitor) report(g *G, what, prevKind string, prev epoch, write bool) {
	cur := g.stack(3)
	kind := "read"
	if write {
		kind = "write"
	}
	prevPos := g.fmtStack(prev.pos)
	a, b := firstFrame(cur), firstFrame(prevPos)
	ps := []string{a, b}
	sort.Strings(ps)
	label := "race:" + ps[0] + "~" + ps[1]
	if m.seen[label] {
		return
	}
	m.seen[label] = true
	m.ex.violate(g, "race", label, fmt.Sprintf("%s%s by g%d at [%s] unordered with previous %s by g%d at [%s]", what, kind, g.id, cur, prevKind, prev.g, prevPos))
}

func firstFrame(s string) string {
	for i := 0; i+3 <= len(s); i++ {
		if s[i:i+3] == " < " {
			return s[:i]
		}
	}
	return s
}
