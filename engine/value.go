package main

// Value representation. Derived from golang.org/x/tools/go/ssa/interp
// (BSD licence) with: symbolic scalars (Sym), modelled channels (*Chan),
// deterministic insertion-ordered maps (*omap), symbolic slice addresses.

import (
	"bytes"
	"fmt"
	"go/types"
	"unsafe"

	"golang.org/x/tools/go/ssa"
	"golang.org/x/tools/go/types/typeutil"
)

type value interface{}

type tuple []value
type array []value
type structure []value

type iface struct {
	t types.Type // never an "untyped" type
	v value
}

type closure struct {
	Fn  *ssa.Function
	Env []value
}

type bad struct{}

// Sym is a symbolic scalar: an SMT term plus the Go basic kind it stands for.
type Sym struct {
	T *Term
	K types.BasicKind
}

// symAddr is the address of slice element base[idx] for a symbolic idx
// (already proven in range). Only load and store are supported on it.
type symAddr struct {
	base []value
	idx  *Term // BV64
}

// native wraps an engine-implemented object (mutex model etc.) so it can sit
// inside interpreted structs.
type native struct{ p interface{} }

type iter interface{ next() tuple }

var typeHasher = typeutil.MakeHasher()

func hashType(t types.Type) int { return int(typeHasher.Hash(t)) }

func hashString(s string) int {
	var h uint32
	for i := 0; i < len(s); i++ {
		h ^= uint32(s[i])
		h *= 16777619
	}
	return int(h)
}

func sameType(x, y types.Type) bool {
	if x == nil {
		return y == nil
	}
	return y != nil && types.Identical(x, y)
}

// equals: Go == on concrete values. Symbolic operands must be handled by
// the caller (symEquals).
func equals(t types.Type, x, y value) bool {
	switch x := x.(type) {
	case bool:
		return x == y.(bool)
	case int:
		return x == y.(int)
	case int8:
		return x == y.(int8)
	case int16:
		return x == y.(int16)
	case int32:
		return x == y.(int32)
	case int64:
		return x == y.(int64)
	case uint:
		return x == y.(uint)
	case uint8:
		return x == y.(uint8)
	case uint16:
		return x == y.(uint16)
	case uint32:
		return x == y.(uint32)
	case uint64:
		return x == y.(uint64)
	case uintptr:
		return x == y.(uintptr)
	case float32:
		return x == y.(float32)
	case float64:
		return x == y.(float64)
	case complex64:
		return x == y.(complex64)
	case complex128:
		return x == y.(complex128)
	case string:
		return x == y.(string)
	case *value:
		return x == y.(*value)
	case *Chan:
		return x == y.(*Chan)
	case unsafe.Pointer:
		return x == y.(unsafe.Pointer)
	case structure:
		y := y.(structure)
		tStruct := t.Underlying().(*types.Struct)
		for i, n := 0, tStruct.NumFields(); i < n; i++ {
			if f := tStruct.Field(i); f.Name() != "_" {
				if !equals(f.Type(), x[i], y[i]) {
					return false
				}
			}
		}
		return true
	case array:
		y := y.(array)
		tElt := t.Underlying().(*types.Array).Elem()
		for i, xi := range x {
			if !equals(tElt, xi, y[i]) {
				return false
			}
		}
		return true
	case iface:
		y := y.(iface)
		if !sameType(x.t, y.t) {
			return false
		}
		if x.t == nil {
			return true
		}
		if !types.Comparable(x.t) {
			panic(targetPanic{v: iface{}, msg: fmt.Sprintf("runtime error: comparing uncomparable type %s", x.t)})
		}
		return equals(x.t, x.v, y.v)
	case native:
		return x.p == y.(native).p
	case Sym:
		panic("equals on symbolic value")
	}
	panic(fmt.Sprintf("comparing uncomparable type %s (%T)", t, x))
}

func hash(t types.Type, x value) int {
	switch x := x.(type) {
	case bool:
		if x {
			return 1
		}
		return 0
	case int:
		return x
	case int8:
		return int(x)
	case int16:
		return int(x)
	case int32:
		return int(x)
	case int64:
		return int(x)
	case uint:
		return int(x)
	case uint8:
		return int(x)
	case uint16:
		return int(x)
	case uint32:
		return int(x)
	case uint64:
		return int(x)
	case uintptr:
		return int(x)
	case float32:
		return int(x)
	case float64:
		return int(x)
	case complex64:
		return int(real(x))
	case complex128:
		return int(real(x))
	case string:
		return hashString(x)
	case *value:
		return int(uintptr(unsafe.Pointer(x)))
	case *Chan:
		return int(uintptr(unsafe.Pointer(x)))
	case structure:
		tStruct := t.Underlying().(*types.Struct)
		h := 0
		for i, n := 0, tStruct.NumFields(); i < n; i++ {
			if f := tStruct.Field(i); f.Name() != "_" {
				h += hash(f.Type(), x[i])
			}
		}
		return h
	case array:
		h := 0
		tElt := t.Underlying().(*types.Array).Elem()
		for _, xi := range x {
			h += hash(tElt, xi)
		}
		return h
	case iface:
		if x.t == nil {
			return 0
		}
		return hashType(x.t)*8581 + hash(x.t, x.v)
	case native:
		return 7
	}
	panic(fmt.Sprintf("unhashable type %v (%T)", t, x))
}

// ---- insertion-ordered map (deterministic iteration)

type omapEntry struct {
	k, v    value
	deleted bool
}

type omap struct {
	keyType types.Type
	entries []omapEntry
	index   map[int][]int // hash -> entry indexes
	n       int
	symKeys bool // some key is a symbolic scalar (resolved by G.mapKey, compared by term identity here)
}

func makeMap(kt types.Type) *omap {
	return &omap{keyType: kt, index: map[int][]int{}}
}

func (m *omap) find(k value) int {
	if m == nil {
		return -1
	}
	if ks, ok := k.(Sym); ok {
		for i := range m.entries {
			if es, ok := m.entries[i].k.(Sym); ok && !m.entries[i].deleted && es.T == ks.T {
				return i
			}
		}
		return -1
	}
	h := hash(m.keyType, k)
	for _, i := range m.index[h] {
		if !m.entries[i].deleted && equals(m.keyType, m.entries[i].k, k) {
			return i
		}
	}
	return -1
}

func (m *omap) lookup(k value) (value, bool) {
	if i := m.find(k); i >= 0 {
		return m.entries[i].v, true
	}
	return nil, false
}

func (m *omap) insert(k, v value) {
	if i := m.find(k); i >= 0 {
		m.entries[i].v = v
		return
	}
	if _, ok := k.(Sym); ok {
		m.symKeys = true
	} else {
		h := hash(m.keyType, k)
		m.index[h] = append(m.index[h], len(m.entries))
	}
	m.entries = append(m.entries, omapEntry{k: k, v: v})
	m.n++
}

func (m *omap) delete(k value) {
	if i := m.find(k); i >= 0 {
		m.entries[i].deleted = true
		m.entries[i].v = nil
		m.n--
	}
}

func (m *omap) len() int {
	if m == nil {
		return 0
	}
	return m.n
}

type omapIter struct {
	m     *omap
	i     int
	start int
	count int
	total int
}

func (it *omapIter) next() tuple {
	for it.m != nil && it.count < it.total {
		idx := (it.start + it.count) % it.total
		it.count++
		e := &it.m.entries[idx]
		if e.deleted {
			continue
		}
		return tuple{true, e.k, e.v}
	}
	// entries appended during iteration are visited too (allowed by the spec)
	for it.m != nil && it.total+it.i < len(it.m.entries) {
		e := &it.m.entries[it.total+it.i]
		it.i++
		if e.deleted {
			continue
		}
		return tuple{true, e.k, e.v}
	}
	return tuple{false, nil, nil}
}

type stringIter struct {
	s []rune
	b []int
	i int
}

func newStringIter(s string) *stringIter {
	it := &stringIter{}
	for i, r := range s {
		it.s = append(it.s, r)
		it.b = append(it.b, i)
	}
	return it
}

func (it *stringIter) next() tuple {
	if it.i >= len(it.s) {
		return tuple{false, 0, int32(0)}
	}
	r := tuple{true, it.b[it.i], it.s[it.i]}
	it.i++
	return r
}

// ---- load / store (deep copy of aggregates, as in interp)

func load(T types.Type, addr *value) value {
	switch T := T.Underlying().(type) {
	case *types.Struct:
		v := (*addr).(structure)
		a := make(structure, len(v))
		for i := range a {
			a[i] = load(T.Field(i).Type(), &v[i])
		}
		return a
	case *types.Array:
		v := (*addr).(array)
		a := make(array, len(v))
		for i := range a {
			a[i] = load(T.Elem(), &v[i])
		}
		return a
	default:
		return *addr
	}
}

func store(T types.Type, addr *value, v value) {
	switch T := T.Underlying().(type) {
	case *types.Struct:
		lhs := (*addr).(structure)
		rhs := v.(structure)
		for i := range lhs {
			store(T.Field(i).Type(), &lhs[i], rhs[i])
		}
	case *types.Array:
		lhs := (*addr).(array)
		rhs := v.(array)
		for i := range lhs {
			store(T.Elem(), &lhs[i], rhs[i])
		}
	default:
		*addr = v
	}
}

// copyVal makes an unaliased copy of an aggregate value (for channel sends,
// map inserts etc.).
func copyVal(v value) value {
	switch v := v.(type) {
	case structure:
		a := make(structure, len(v))
		for i := range v {
			a[i] = copyVal(v[i])
		}
		return a
	case array:
		a := make(array, len(v))
		for i := range v {
			a[i] = copyVal(v[i])
		}
		return a
	}
	return v
}

func writeValue(buf *bytes.Buffer, v value) {
	switch v := v.(type) {
	case nil, bool, int, int8, int16, int32, int64, uint, uint8, uint16, uint32, uint64, uintptr, float32, float64, complex64, complex128, string:
		fmt.Fprintf(buf, "%v", v)
	case Sym:
		fmt.Fprintf(buf, "<sym t%d>", v.T.id)
	case *omap:
		buf.WriteString("map[")
		if v != nil {
			sep := ""
			for _, e := range v.entries {
				if e.deleted {
					continue
				}
				buf.WriteString(sep)
				sep = " "
				writeValue(buf, e.k)
				buf.WriteString(":")
				writeValue(buf, e.v)
			}
		}
		buf.WriteString("]")
	case *Chan:
		fmt.Fprintf(buf, "chan%p", v)
	case *value:
		if v == nil {
			buf.WriteString("<nil>")
		} else {
			fmt.Fprintf(buf, "%p", v)
		}
	case iface:
		fmt.Fprintf(buf, "(%s, ", v.t)
		writeValue(buf, v.v)
		buf.WriteString(")")
	case structure:
		buf.WriteString("{")
		for i, e := range v {
			if i > 0 {
				buf.WriteString(" ")
			}
			writeValue(buf, e)
		}
		buf.WriteString("}")
	case array:
		buf.WriteString("[")
		for i, e := range v {
			if i > 0 {
				buf.WriteString(" ")
			}
			writeValue(buf, e)
		}
		buf.WriteString("]")
	case []value:
		buf.WriteString("[")
		for i, e := range v {
			if i > 0 {
				buf.WriteString(" ")
			}
			writeValue(buf, e)
		}
		buf.WriteString("]")
	case *ssa.Function, *ssa.Builtin, *closure:
		fmt.Fprintf(buf, "%p", v)
	case tuple:
		buf.WriteString("(")
		for i, e := range v {
			if i > 0 {
				buf.WriteString(", ")
			}
			writeValue(buf, e)
		}
		buf.WriteString(")")
	default:
		fmt.Fprintf(buf, "<%T>", v)
	}
}

func toString(v value) string {
	var b bytes.Buffer
	writeValue(&b, v)
	return b.String()
}
