package main

import (
	"encoding/json"
	"flag"
	"fmt"
	"os"
	"path/filepath"
	"regexp"
	"sort"
	"strconv"
	"strings"
	"time"
)

func usage() {
	fmt.Fprintln(os.Stderr, "usage: fsx check <ID> [--tier quick|thorough] [--entry NAME] | fsx replay <dir> | fsx list")
	os.Exit(3)
}

func main() {
	if len(os.Args) < 2 {
		usage()
	}
	switch os.Args[1] {
	case "check":
		os.Exit(cmdCheck(os.Args[2:]))
	case "replay":
		os.Exit(cmdReplay(os.Args[2:]))
	case "list":
		for _, p := range propSpecs {
			fmt.Println(p.ID, p.Pkgs)
		}
	default:
		usage()
	}
}

type KnownFinding struct {
	Property  string `json:"property"`
	Signature string `json:"signature"`
	What      string `json:"what"`
	Status    string `json:"status"` // "known" or "fixed"
	Commit    string `json:"commit,omitempty"`
}

func loadKnown() []KnownFinding {
	b, err := os.ReadFile(filepath.Join(verifDir, "known_findings.json"))
	if err != nil {
		return nil
	}
	var k []KnownFinding
	if err := json.Unmarshal(b, &k); err != nil {
		fmt.Fprintln(os.Stderr, "known_findings.json:", err)
		os.Exit(3)
	}
	return k
}

func cmdCheck(args []string) int {
	fs := flag.NewFlagSet("check", flag.ExitOnError)
	tier := fs.String("tier", "", "quick|thorough")
	only := fs.String("entry", "", "run only this entry")
	verbose := fs.Bool("v", false, "verbose")
	noReplay := fs.Bool("noreplay", false, "skip native replay")
	if len(args) < 1 {
		usage()
	}
	id := args[0]
	fs.Parse(args[1:])
	if *tier == "" {
		*tier = os.Getenv("VERIF_TIER")
	}
	if *tier == "" {
		*tier = "quick"
	}
	seed := 0
	if s := os.Getenv("VERIF_SEED"); s != "" {
		seed, _ = strconv.Atoi(s)
	}
	spec := findSpec(id)
	if spec == nil {
		fmt.Fprintln(os.Stderr, "unknown property", id)
		return 3
	}
	t0 := time.Now()
	gThorough = *tier == "thorough"
	if gThorough {
		gTimeoutMs = 60000
	}
	prog, err := loadProgram(spec.Pkgs)
	if err != nil {
		fmt.Printf("ERROR harness-build property=%s %v\n", id, err)
		writeEvidence(spec, *tier, seed, nil, nil, time.Since(t0).Seconds(), []string{"harness-build: " + err.Error()}, 0, nil)
		return 3
	}
	loadSecs := time.Since(t0).Seconds()
	entries := prog.entries("V" + id + "_")
	if *only != "" {
		var f []*ssaFn
		for _, e := range entries {
			if e.Name() == *only {
				f = append(f, e)
			}
		}
		entries = f
	}
	if len(entries) == 0 {
		fmt.Printf("ERROR no-entries property=%s\n", id)
		return 3
	}
	// canaries (self-test)
	if err := runCanaries(prog, id); err != nil {
		fmt.Printf("ERROR self-test property=%s %v\n", id, err)
		return 3
	}
	known := loadKnown()
	var results []*EntryResult
	var errorsAll []string
	exit := 0
	var newVios []*Violation
	knownHit := map[string]bool{}
	for _, e := range entries {
		cfg := defaultConfig()
		spec.configure(&cfg, *tier, e.Name())
		if w := os.Getenv("FSX_WORKERS"); w != "" {
			cfg.Workers, _ = strconv.Atoi(w)
		}
		if w := os.Getenv("FSX_PREEMPT"); w != "" { // diagnostic override
			cfg.Preempt, _ = strconv.Atoi(w)
		}
		er := runEntry(prog, e, cfg, nil, nil)
		results = append(results, er)
		if *verbose {
			fmt.Fprintf(os.Stderr, "%s: paths=%d status=%v oblig=%d/%d sched=%d wall=%.1fs\n", e.Name(), er.Stats.Paths, er.Stats.ByStatus, er.Stats.Discharged, er.Stats.Obligations, er.Stats.SchedPoints, er.Wall)
			for _, s := range er.Inconcl {
				fmt.Fprintln(os.Stderr, "   inconclusive:", s)
			}
		}
		for _, s := range er.Errors {
			errorsAll = append(errorsAll, e.Name()+": "+s)
		}
		for _, v := range er.Violations {
			matched := false
			for _, k := range known {
				if k.Property == id && k.Status != "fixed" && sigMatch(k.Signature, v.Sig) {
					matched = true
					if !knownHit[k.Signature] {
						knownHit[k.Signature] = true
						fmt.Printf("KNOWN-FINDING: property=%s %s [%s]\n", id, k.What, k.Signature)
					}
				}
			}
			if !matched {
				newVios = append(newVios, v)
			}
		}
	}
	gDiffMu.Lock()
	if gDiffErr != "" {
		errorsAll = append(errorsAll, gDiffErr)
	}
	gDiffMu.Unlock()
	// vacuity: every Reach marker declared by the harness must be reached
	vac := checkReach(prog, entries, results)
	for _, s := range vac {
		errorsAll = append(errorsAll, "vacuous: "+s)
	}
	// replay new violations
	seenSig := map[string]bool{}
	nviol := 0
	for _, v := range newVios {
		if seenSig[v.Sig] {
			continue
		}
		seenSig[v.Sig] = true
		dir, status := replayViolation(prog, spec, v, *noReplay)
		v.Replayed = status
		if strings.HasPrefix(status, "ERROR") {
			errorsAll = append(errorsAll, fmt.Sprintf("%s: %s", v.Sig, status))
			continue
		}
		nviol++
		fmt.Printf("VIOLATION property=%s replay=%s\n", id, dir)
		fmt.Printf("  entry=%s label=%s kind=%s replay=%s\n  detail: %s\n  inputs: %s\n", v.Entry, v.Label, v.Kind, status, v.Detail, inputsString(v.Inputs))
		exit = 1
	}
	inconcl := 0
	for _, er := range results {
		inconcl += len(er.Inconcl)
	}
	wall := time.Since(t0).Seconds()
	extra := map[string]interface{}{"load_s": loadSecs, "known_findings_hit": len(knownHit)}
	if prog.skippedOpt != "" {
		extra["skipped"] = prog.skippedOpt
		fmt.Printf("NOTE property=%s %s\n", id, prog.skippedOpt)
	}
	writeEvidence(spec, *tier, seed, prog, results, wall, errorsAll, nviol, extra)
	if len(errorsAll) > 0 {
		seenE := map[string]bool{}
		for _, e := range errorsAll {
			if !seenE[firstLine(e)] {
				seenE[firstLine(e)] = true
				fmt.Printf("ERROR property=%s %s\n", id, firstLine(e))
			}
		}
		if exit == 0 {
			exit = 3
		}
	}
	if inconcl > 0 && exit == 0 {
		fmt.Printf("INCONCLUSIVE property=%s %d path(s) hit a bound; see evidence\n", id, inconcl)
		exit = 3
	}
	if exit == 0 {
		fmt.Printf("OK property=%s tier=%s entries=%d wall=%.1fs\n", id, *tier, len(entries), wall)
	}
	return exit
}

func firstLine(s string) string {
	if i := strings.Index(s, "\n"); i >= 0 {
		return s[:i]
	}
	return s
}

func inputsString(in []InputVal) string {
	var parts []string
	for _, i := range in {
		parts = append(parts, i.Name+"="+i.Val)
	}
	return strings.Join(parts, " ")
}

// checkReach verifies that every vf.Reach label that appears in an entry was
// reached on at least one path.
func checkReach(prog *Program, entries []*ssaFn, results []*EntryResult) []string {
	var out []string
	for i, e := range entries {
		labels := reachLabels(e)
		for _, l := range labels {
			if results[i].Reach[l] == 0 {
				out = append(out, fmt.Sprintf("%s: marker %q never reached", e.Name(), l))
			}
		}
	}
	return out
}

func writeEvidence(spec *PropSpec, tier string, seed int, prog *Program, results []*EntryResult, wall float64, errs []string, nviol int, extra map[string]interface{}) {
	type entryEv struct {
		Entry        string           `json:"entry"`
		Paths        int64            `json:"paths"`
		ByStatus     map[string]int64 `json:"paths_by_status"`
		Obligations  int64            `json:"obligations"`
		Discharged   int64            `json:"discharged"`
		SchedPoints  int64            `json:"schedule_decisions"`
		MaxDecisions int              `json:"max_decisions_on_a_path"`
		Steps        int64            `json:"ssa_instructions_executed"`
		Reach        map[string]int64 `json:"reach_markers"`
		Inconclusive []string         `json:"inconclusive,omitempty"`
		Violations   []*Violation     `json:"violations,omitempty"`
		Samples      []string         `json:"sample_paths"`
		Wall         float64          `json:"wall_s"`
	}
	var evs []entryEv
	var paths, obl, dis int64
	fnset := map[string]int{}
	var samples []interface{}
	for _, er := range results {
		evs = append(evs, entryEv{er.Entry, er.Stats.Paths, er.Stats.ByStatus, er.Stats.Obligations, er.Stats.Discharged, er.Stats.SchedPoints, er.Stats.MaxDecisions, er.Stats.Steps, er.Reach, er.Inconcl, er.Violations, er.Samples, er.Wall})
		paths += er.Stats.Paths
		obl += er.Stats.Obligations
		dis += er.Stats.Discharged
		for f := range er.Fns {
			if f.Pkg != nil && strings.HasPrefix(f.Pkg.Pkg.Path(), modulePath) && !prog.isHarnessPos(f.Pos()) {
				n := 0
				for _, b := range f.Blocks {
					n += len(b.Instrs)
				}
				fnset[shortFn(f)] = n
			}
		}
		for _, s := range er.Samples {
			samples = append(samples, map[string]string{"entry": er.Entry, "decisions": s})
		}
		for _, v := range er.Violations {
			if len(samples) < 12 {
				samples = append(samples, map[string]interface{}{"entry": er.Entry, "violation": v.Label, "inputs": inputsString(v.Inputs)})
			}
		}
	}
	if len(samples) == 0 {
		samples = append(samples, "none")
	}
	var fns []string
	for f, n := range fnset {
		fns = append(fns, fmt.Sprintf("%s (%d instrs)", f, n))
	}
	sort.Strings(fns)
	cov := map[string]interface{}{
		"explanation": "bounded symbolic execution of the SSA of the real code (regenerated from /repo on this run); " +
			"every assertion is an SMT query pc ∧ ¬φ decided by z3 (cvc5/z3-new on unknown); schedule and shape choices are case-split, data stays symbolic. " + spec.Bounds(tier),
		"evaluations":         paths,
		"distinct_nontrivial": paths,
		"rule":                "one evaluation = one explored path (distinct decision vector: symbolic branch outcomes, shape/selector choices, schedule choices); every path is distinct by construction of the DFS over decision vectors; non-trivial = reaches at least the harness body (infeasible prefixes are counted under paths_by_status.infeasible)",
		"samples":             samples,
		"obligations":         obl,
		"discharged":          dis,
		"entries":             evs,
		"functions_encoded":   fns,
		"functions_encoded_n": len(fns),
		"solver":              map[string]interface{}{"queries": gStats.Queries, "sat": gStats.Sat, "unsat": gStats.Unsat, "unknown": gStats.Unknown, "fallback_to_cvc5_z3new": gStats.Fallback, "cross_checked": gStats.DiffCheck, "z3_seconds": float64(gStats.NanosZ3) / 1e9, "alt_seconds": float64(gStats.NanosAlt) / 1e9},
		"bounds":              spec.Bounds(tier),
		"outside_bounds":      spec.Outside,
		"errors":              errs,
		"checker_cmd":         "z3 -in (4.8.12); cvc5 1.0; z3-new 5.1.0",
		"trusted_base":        []string{"go/ssa v0.29.0", "fsx interpreter semantics", "stubs (DESIGN §2.6, §3.2)", "z3/cvc5"},
	}
	for k, v := range extra {
		cov[k] = v
	}
	ev := map[string]interface{}{
		"property_id": spec.ID,
		"tier":        tier,
		"seed":        seed,
		"level":       "other",
		"coverage":    cov,
		"assumptions": spec.Assumptions,
		"wall_s":      wall,
		"violations":  nviol,
	}
	b, _ := json.MarshalIndent(ev, "", " ")
	evDir := filepath.Join(verifDir, "evidence")
	if d := os.Getenv("VERIF_EVIDENCE_DIR"); d != "" {
		evDir = d // used only by the mutation-testing helper (tools/mut.sh)
	}
	os.MkdirAll(evDir, 0o755)
	os.WriteFile(filepath.Join(evDir, spec.ID+".json"), b, 0o644)
}

// sigMatch: a known-finding signature is either the exact violation
// signature or, when it starts with "re:", a regular expression over it.
func sigMatch(pat, sig string) bool {
	if strings.HasPrefix(pat, "re:") {
		re, err := regexp.Compile(pat[3:])
		if err != nil {
			fmt.Fprintln(os.Stderr, "bad known-finding regexp:", pat)
			os.Exit(3)
		}
		return re.MatchString(sig)
	}
	return pat == sig
}
