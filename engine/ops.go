package main

// Operators over concrete and symbolic values. Integers of every Go kind go
// through one code path: (bits uint64, kind) -> TermCtx folding -> native
// value, so concrete and symbolic arithmetic share their semantics.

import (
	"fmt"
	"go/constant"
	"go/token"
	"go/types"
	"math"
	"unsafe"

	"golang.org/x/tools/go/ssa"
)

// targetPanic is a panic of the interpreted program.
type targetPanic struct {
	v   value
	msg string
}

func (p targetPanic) String() string {
	if p.msg != "" {
		return p.msg
	}
	return toString(p.v)
}

// killSignal unwinds an interpreted goroutine when its path is over.
type killSignal struct{}

// abortPath ends the current path with a non-verdict (infeasible,
// unsupported, unwind, budget).
type abortPath struct {
	kind   string // "infeasible", "unsupported", "unwind", "budget", "done"
	detail string
}

func kindWidth(k types.BasicKind) int {
	switch k {
	case types.Bool, types.UntypedBool:
		return 0
	case types.Int8, types.Uint8:
		return 8
	case types.Int16, types.Uint16:
		return 16
	case types.Int32, types.Uint32, types.UntypedRune:
		return 32
	case types.Int, types.Int64, types.Uint, types.Uint64, types.Uintptr, types.UntypedInt:
		return 64
	case types.Float64, types.UntypedFloat:
		return -64
	case types.Float32:
		return -32
	}
	panic(fmt.Sprintf("kindWidth: %v", k))
}

func kindSigned(k types.BasicKind) bool {
	switch k {
	case types.Int, types.Int8, types.Int16, types.Int32, types.Int64, types.UntypedInt, types.UntypedRune:
		return true
	}
	return false
}

func isIntKind(k types.BasicKind) bool {
	switch k {
	case types.Int, types.Int8, types.Int16, types.Int32, types.Int64,
		types.Uint, types.Uint8, types.Uint16, types.Uint32, types.Uint64, types.Uintptr:
		return true
	}
	return false
}

// kindOf returns the basic kind of a scalar value, or Invalid.
func kindOf(v value) types.BasicKind {
	switch v := v.(type) {
	case Sym:
		return v.K
	case bool:
		return types.Bool
	case int:
		return types.Int
	case int8:
		return types.Int8
	case int16:
		return types.Int16
	case int32:
		return types.Int32
	case int64:
		return types.Int64
	case uint:
		return types.Uint
	case uint8:
		return types.Uint8
	case uint16:
		return types.Uint16
	case uint32:
		return types.Uint32
	case uint64:
		return types.Uint64
	case uintptr:
		return types.Uintptr
	case float32:
		return types.Float32
	case float64:
		return types.Float64
	case string:
		return types.String
	case complex64:
		return types.Complex64
	case complex128:
		return types.Complex128
	}
	return types.Invalid
}

// scalarBits returns the bit pattern of a concrete bool/int/float value.
func scalarBits(v value) uint64 {
	switch v := v.(type) {
	case bool:
		if v {
			return 1
		}
		return 0
	case int:
		return uint64(v)
	case int8:
		return uint64(uint8(v))
	case int16:
		return uint64(uint16(v))
	case int32:
		return uint64(uint32(v))
	case int64:
		return uint64(v)
	case uint:
		return uint64(v)
	case uint8:
		return uint64(v)
	case uint16:
		return uint64(v)
	case uint32:
		return uint64(v)
	case uint64:
		return v
	case uintptr:
		return uint64(v)
	case float32:
		return uint64(math.Float32bits(v))
	case float64:
		return math.Float64bits(v)
	}
	panic(fmt.Sprintf("scalarBits: %T", v))
}

// mkScalar builds a native value of kind k from bits.
func mkScalar(k types.BasicKind, b uint64) value {
	switch k {
	case types.Bool, types.UntypedBool:
		return b != 0
	case types.Int, types.UntypedInt:
		return int(b)
	case types.Int8:
		return int8(b)
	case types.Int16:
		return int16(b)
	case types.Int32, types.UntypedRune:
		return int32(b)
	case types.Int64:
		return int64(b)
	case types.Uint:
		return uint(b)
	case types.Uint8:
		return uint8(b)
	case types.Uint16:
		return uint16(b)
	case types.Uint32:
		return uint32(b)
	case types.Uint64:
		return b
	case types.Uintptr:
		return uintptr(b)
	case types.Float32:
		return math.Float32frombits(uint32(b))
	case types.Float64, types.UntypedFloat:
		return math.Float64frombits(b)
	}
	panic(fmt.Sprintf("mkScalar: %v", k))
}

// termOf lifts a scalar value to a term.
func termOf(c *TermCtx, v value) *Term {
	if s, ok := v.(Sym); ok {
		return s.T
	}
	k := kindOf(v)
	w := kindWidth(k)
	b := scalarBits(v)
	switch {
	case w == 0:
		return c.Bool(b != 0)
	case w == -64:
		return c.mk("const", -64, b, "", 0)
	case w == -32:
		return c.mk("const", -32, b, "", 0)
	}
	return c.BV(b, w)
}

// valOf lowers a term to a native value if it is constant, else wraps it.
func valOf(t *Term, k types.BasicKind) value {
	if t.IsConst() {
		return mkScalar(k, t.val)
	}
	return Sym{T: t, K: k}
}

func isSym(v value) bool { _, ok := v.(Sym); return ok }

// hasSym reports whether a (possibly aggregate) value contains a symbolic scalar.
func hasSym(v value) bool {
	switch v := v.(type) {
	case Sym:
		return true
	case structure:
		for _, e := range v {
			if hasSym(e) {
				return true
			}
		}
	case array:
		for _, e := range v {
			if hasSym(e) {
				return true
			}
		}
	case iface:
		return hasSym(v.v)
	}
	return false
}

func rtPanic(g *G, msg string) {
	panic(targetPanic{v: iface{t: g.ex.prog.runtimeErrorString, v: msg}, msg: "runtime error: " + msg})
}

func asInt64(x value) int64 {
	if _, ok := x.(Sym); ok {
		panic("asInt64 on symbolic value")
	}
	k := kindOf(x)
	b := scalarBits(x)
	if kindSigned(k) {
		return sext(b, kindWidth(k))
	}
	return int64(b)
}

// concInt makes x concrete (forking on the feasible values if symbolic).
func concInt(g *G, x value) int64 {
	if s, ok := x.(Sym); ok {
		b := g.ex.Concretize(g, s.T)
		if kindSigned(s.K) {
			return sext(b, kindWidth(s.K))
		}
		return int64(b)
	}
	return asInt64(x)
}

func constValue(c *ssa.Const) value {
	if c.Value == nil {
		return zero(c.Type())
	}
	if t, ok := c.Type().Underlying().(*types.Basic); ok {
		switch t.Kind() {
		case types.Bool, types.UntypedBool:
			return constant.BoolVal(c.Value)
		case types.Int, types.UntypedInt:
			return int(c.Int64())
		case types.Int8:
			return int8(c.Int64())
		case types.Int16:
			return int16(c.Int64())
		case types.Int32, types.UntypedRune:
			return int32(c.Int64())
		case types.Int64:
			return c.Int64()
		case types.Uint:
			return uint(c.Uint64())
		case types.Uint8:
			return uint8(c.Uint64())
		case types.Uint16:
			return uint16(c.Uint64())
		case types.Uint32:
			return uint32(c.Uint64())
		case types.Uint64:
			return c.Uint64()
		case types.Uintptr:
			return uintptr(c.Uint64())
		case types.Float32:
			return float32(c.Float64())
		case types.Float64, types.UntypedFloat:
			return c.Float64()
		case types.Complex64:
			return complex64(c.Complex128())
		case types.Complex128, types.UntypedComplex:
			return c.Complex128()
		case types.String, types.UntypedString:
			if c.Value.Kind() == constant.String {
				return constant.StringVal(c.Value)
			}
			return string(rune(c.Int64()))
		}
	}
	panic(fmt.Sprintf("constValue: %s", c))
}

func zero(t types.Type) value {
	switch t := t.(type) {
	case *types.Basic:
		if t.Kind() == types.UntypedNil {
			panic("untyped nil has no zero value")
		}
		if t.Info()&types.IsUntyped != 0 {
			t = types.Default(t).(*types.Basic)
		}
		switch t.Kind() {
		case types.String:
			return ""
		case types.UnsafePointer:
			return unsafe.Pointer(nil)
		case types.Complex64:
			return complex64(0)
		case types.Complex128:
			return complex128(0)
		}
		return mkScalar(t.Kind(), 0)
	case *types.Pointer:
		return (*value)(nil)
	case *types.Array:
		a := make(array, t.Len())
		for i := range a {
			a[i] = zero(t.Elem())
		}
		return a
	case *types.Named:
		return zero(t.Underlying())
	case *types.Alias:
		return zero(types.Unalias(t))
	case *types.Interface:
		return iface{}
	case *types.Slice:
		return []value(nil)
	case *types.Struct:
		s := make(structure, t.NumFields())
		for i := range s {
			s[i] = zero(t.Field(i).Type())
		}
		return s
	case *types.Tuple:
		if t.Len() == 1 {
			return zero(t.At(0).Type())
		}
		s := make(tuple, t.Len())
		for i := range s {
			s[i] = zero(t.At(i).Type())
		}
		return s
	case *types.Chan:
		return (*Chan)(nil)
	case *types.Map:
		return (*omap)(nil)
	case *types.Signature:
		return (*ssa.Function)(nil)
	case *types.TypeParam:
		panic("zero of type parameter " + t.String())
	}
	panic(fmt.Sprint("zero: unexpected ", t))
}

// slice returns x[lo:hi:max].
func sliceOp(g *G, x, lo, hi, max value) value {
	var Len, Cap int
	switch x := x.(type) {
	case string:
		Len = len(x)
	case []value:
		Len = len(x)
		Cap = cap(x)
	case *value:
		if x == nil {
			rtPanic(g, "invalid memory address or nil pointer dereference")
		}
		a := (*x).(array)
		Len = len(a)
		Cap = cap(a)
	}
	l := int64(0)
	if lo != nil {
		l = concInt(g, lo)
	}
	h := int64(Len)
	if hi != nil {
		h = concInt(g, hi)
	}
	m := int64(Cap)
	if max != nil {
		m = concInt(g, max)
	}
	switch x := x.(type) {
	case string:
		if l < 0 || h < l || h > int64(Len) {
			rtPanic(g, fmt.Sprintf("slice bounds out of range [%d:%d] with length %d", l, h, Len))
		}
		return x[l:h]
	case []value:
		if l < 0 || h < l || m < h || m > int64(Cap) {
			rtPanic(g, fmt.Sprintf("slice bounds out of range [%d:%d:%d] with capacity %d", l, h, m, Cap))
		}
		return x[l:h:m]
	case *value:
		a := (*x).(array)
		if l < 0 || h < l || m < h || m > int64(Cap) {
			rtPanic(g, fmt.Sprintf("slice bounds out of range [%d:%d:%d] with capacity %d", l, h, m, Cap))
		}
		return []value(a)[l:h:m]
	}
	panic(fmt.Sprintf("slice: unexpected X type: %T", x))
}

var cmpOps = map[token.Token][2]string{
	token.LSS: {"bvult", "bvslt"},
	token.LEQ: {"bvule", "bvsle"},
	token.GTR: {"bvugt", "bvsgt"},
	token.GEQ: {"bvuge", "bvsge"},
}

var fpCmpOps = map[token.Token]string{token.LSS: "fp.lt", token.LEQ: "fp.leq", token.GTR: "fp.gt", token.GEQ: "fp.geq"}
var fpBinOps = map[token.Token]string{token.ADD: "fp.add", token.SUB: "fp.sub", token.MUL: "fp.mul", token.QUO: "fp.div"}

func binop(g *G, op token.Token, t types.Type, x, y value) value {
	switch op {
	case token.EQL:
		return valOf(eqTerm(g, t, x, y), types.Bool)
	case token.NEQ:
		return valOf(g.ex.tc.Not(eqTerm(g, t, x, y)), types.Bool)
	}
	k := kindOf(x)
	c := g.ex.tc
	switch {
	case k == types.String:
		xs, ys := x.(string), y.(string)
		switch op {
		case token.ADD:
			return xs + ys
		case token.LSS:
			return xs < ys
		case token.LEQ:
			return xs <= ys
		case token.GTR:
			return xs > ys
		case token.GEQ:
			return xs >= ys
		}
	case k == types.Complex128:
		xs, ys := x.(complex128), y.(complex128)
		switch op {
		case token.ADD:
			return xs + ys
		case token.SUB:
			return xs - ys
		case token.MUL:
			return xs * ys
		case token.QUO:
			return xs / ys
		}
	case k == types.Float64 || k == types.Float32:
		a, b := termOf(c, x), termOf(c, y)
		if k == types.Float32 && a.IsConst() && b.IsConst() {
			xf, yf := x.(float32), y.(float32)
			switch op {
			case token.ADD:
				return xf + yf
			case token.SUB:
				return xf - yf
			case token.MUL:
				return xf * yf
			case token.QUO:
				return xf / yf
			case token.LSS:
				return xf < yf
			case token.LEQ:
				return xf <= yf
			case token.GTR:
				return xf > yf
			case token.GEQ:
				return xf >= yf
			}
		}
		if o, ok := fpBinOps[op]; ok {
			return valOf(c.FPBin(o, a, b), k)
		}
		if o, ok := fpCmpOps[op]; ok {
			return valOf(c.FPCmp(o, a, b), types.Bool)
		}
	case isIntKind(k):
		a := termOf(c, x)
		signed := kindSigned(k)
		switch op {
		case token.SHL, token.SHR:
			ky := kindOf(y)
			b := termOf(c, y)
			if kindSigned(ky) {
				neg := c.BVCmp("bvslt", b, c.BV(0, b.W))
				if g.ex.Branch(g, neg) {
					rtPanic(g, "negative shift amount")
				}
			}
			// bring the count to x's width, saturating
			var cnt *Term
			if b.W > a.W {
				big := c.BVCmp("bvuge", b, c.BV(uint64(a.W), b.W))
				cnt = c.Ite(big, c.BV(uint64(a.W), a.W), c.Extract(b, a.W-1, 0))
			} else {
				cnt = c.ZeroExt(b, a.W)
			}
			if op == token.SHL {
				return valOf(c.BVBin("bvshl", a, cnt), k)
			}
			if signed {
				return valOf(c.BVBin("bvashr", a, cnt), k)
			}
			return valOf(c.BVBin("bvlshr", a, cnt), k)
		}
		b := termOf(c, y)
		switch op {
		case token.ADD:
			return valOf(c.BVBin("bvadd", a, b), k)
		case token.SUB:
			return valOf(c.BVBin("bvsub", a, b), k)
		case token.MUL:
			return valOf(c.BVBin("bvmul", a, b), k)
		case token.AND:
			return valOf(c.BVBin("bvand", a, b), k)
		case token.OR:
			return valOf(c.BVBin("bvor", a, b), k)
		case token.XOR:
			return valOf(c.BVBin("bvxor", a, b), k)
		case token.AND_NOT:
			return valOf(c.BVBin("bvand", a, c.BVNot(b)), k)
		case token.QUO, token.REM:
			if g.ex.Branch(g, c.Eq(b, c.BV(0, b.W))) {
				rtPanic(g, "integer divide by zero")
			}
			o := "bvudiv"
			if op == token.REM {
				o = "bvurem"
			}
			if signed {
				o = "bvsdiv"
				if op == token.REM {
					o = "bvsrem"
				}
			}
			return valOf(c.BVBin(o, a, b), k)
		}
		if o, ok := cmpOps[op]; ok {
			if signed {
				return valOf(c.BVCmp(o[1], a, b), types.Bool)
			}
			return valOf(c.BVCmp(o[0], a, b), types.Bool)
		}
	}
	panic(fmt.Sprintf("invalid binary op: %T %s %T", x, op, y))
}

// eqTerm computes x == y (Go semantics for static type t) as a Bool term.
func eqTerm(g *G, t types.Type, x, y value) *Term {
	c := g.ex.tc
	switch t.Underlying().(type) {
	case *types.Map, *types.Signature, *types.Slice:
		return c.Bool(isNilRef(x) == isNilRef(y))
	}
	return eqTermV(g, t, x, y)
}

func isNilRef(x value) bool {
	switch x := x.(type) {
	case *omap:
		return x == nil
	case *ssa.Function:
		return x == nil
	case *closure:
		return x == nil
	case *ssa.Builtin:
		return x == nil
	case []value:
		return x == nil
	case nativeFn:
		return x == nil
	}
	panic(fmt.Sprintf("isNilRef: %T", x))
}

func eqTermV(g *G, t types.Type, x, y value) *Term {
	c := g.ex.tc
	if !hasSym(x) && !hasSym(y) {
		return c.Bool(equals(t, x, y))
	}
	switch x := x.(type) {
	case Sym:
		return c.Eq(x.T, termOf(c, y))
	case structure:
		y := y.(structure)
		st := t.Underlying().(*types.Struct)
		r := c.Bool(true)
		for i := 0; i < st.NumFields(); i++ {
			if st.Field(i).Name() == "_" {
				continue
			}
			r = c.And(r, eqTermV(g, st.Field(i).Type(), x[i], y[i]))
		}
		return r
	case array:
		y := y.(array)
		et := t.Underlying().(*types.Array).Elem()
		r := c.Bool(true)
		for i := range x {
			r = c.And(r, eqTermV(g, et, x[i], y[i]))
		}
		return r
	case iface:
		y := y.(iface)
		if !sameType(x.t, y.t) {
			return c.Bool(false)
		}
		if x.t == nil {
			return c.Bool(true)
		}
		return eqTermV(g, x.t, x.v, y.v)
	}
	if _, ok := y.(Sym); ok {
		return c.Eq(termOf(c, x), y.(Sym).T)
	}
	panic(fmt.Sprintf("eqTermV: %T", x))
}

func unop(g *G, instr *ssa.UnOp, x value) value {
	c := g.ex.tc
	switch instr.Op {
	case token.ARROW:
		v, ok := g.chanRecv(x.(*Chan))
		if !ok {
			v = zero(instr.X.Type().Underlying().(*types.Chan).Elem())
		}
		if instr.CommaOk {
			return tuple{v, ok}
		}
		return v
	case token.SUB:
		k := kindOf(x)
		switch {
		case isIntKind(k):
			return valOf(c.BVNeg(termOf(c, x)), k)
		case k == types.Float64:
			return valOf(c.FPNeg(termOf(c, x)), k)
		case k == types.Float32:
			return -x.(float32)
		case k == types.Complex128:
			return -x.(complex128)
		}
	case token.MUL:
		return g.loadPtr(derefType(instr.X.Type()), x)
	case token.NOT:
		return valOf(c.Not(termOf(c, x)), types.Bool)
	case token.XOR:
		k := kindOf(x)
		return valOf(c.BVNot(termOf(c, x)), k)
	}
	panic(fmt.Sprintf("invalid unary op %s %T", instr.Op, x))
}

func derefType(t types.Type) types.Type {
	if p, ok := t.Underlying().(*types.Pointer); ok {
		return p.Elem()
	}
	panic("derefType: not a pointer: " + t.String())
}

func typeAssert(g *G, instr *ssa.TypeAssert, itf iface) value {
	var v value
	err := ""
	if itf.t == nil {
		err = fmt.Sprintf("interface conversion: interface is nil, not %s", instr.AssertedType)
	} else if idst, ok := instr.AssertedType.Underlying().(*types.Interface); ok {
		v = itf
		if meth, _ := types.MissingMethod(itf.t, idst, true); meth != nil {
			err = fmt.Sprintf("interface conversion: %v is not %v: missing method %s", itf.t, instr.AssertedType, meth.Name())
		}
	} else if types.Identical(itf.t, instr.AssertedType) {
		v = itf.v
	} else {
		err = fmt.Sprintf("interface conversion: interface is %s, not %s", itf.t, instr.AssertedType)
	}
	if err != "" {
		if !instr.CommaOk {
			panic(targetPanic{v: iface{t: g.ex.prog.runtimeErrorString, v: err}, msg: err})
		}
		return tuple{zero(instr.AssertedType), false}
	}
	if instr.CommaOk {
		return tuple{v, true}
	}
	return v
}

func callBuiltin(g *G, caller *frame, callpos token.Pos, fn *ssa.Builtin, args []value) value {
	switch fn.Name() {
	case "append":
		if len(args) == 1 {
			return args[0]
		}
		if s, ok := args[1].(string); ok {
			arg0 := args[0].([]value)
			for i := 0; i < len(s); i++ {
				arg0 = append(arg0, s[i])
			}
			return arg0
		}
		src := args[1].([]value)
		dst := args[0].([]value)
		for _, e := range src {
			dst = append(dst, copyVal(e))
		}
		return dst
	case "copy":
		src := args[1]
		if s, ok := src.(string); ok {
			var res []value
			for _, b := range []byte(s) {
				res = append(res, b)
			}
			src = res
		}
		d, s := args[0].([]value), src.([]value)
		n := len(d)
		if len(s) < n {
			n = len(s)
		}
		tmp := make([]value, n)
		for i := 0; i < n; i++ {
			tmp[i] = copyVal(s[i])
		}
		copy(d, tmp)
		return n
	case "close":
		g.chanClose(args[0].(*Chan))
		return nil
	case "delete":
		m := args[0].(*omap)
		if m != nil {
			g.mapAccess(m, true)
			m.delete(g.mapKey(m, args[1]))
		}
		return nil
	case "print", "println":
		return nil
	case "len":
		switch x := args[0].(type) {
		case string:
			return len(x)
		case array:
			return len(x)
		case *value:
			return len((*x).(array))
		case []value:
			return len(x)
		case *omap:
			if x != nil {
				g.mapAccess(x, false)
			}
			return x.len()
		case *Chan:
			return g.chanLen(x)
		}
		panic(fmt.Sprintf("len: illegal operand: %T", args[0]))
	case "cap":
		switch x := args[0].(type) {
		case array:
			return cap(x)
		case *value:
			return cap((*x).(array))
		case []value:
			return cap(x)
		case *Chan:
			if x == nil {
				return 0
			}
			return x.cap
		}
		panic(fmt.Sprintf("cap: illegal operand: %T", args[0]))
	case "min", "max":
		r := args[0]
		for _, a := range args[1:] {
			op := token.LSS
			if fn.Name() == "max" {
				op = token.GTR
			}
			lt := binop(g, op, nil, a, r)
			c := g.ex.tc
			k := kindOf(r)
			if b, ok := lt.(bool); ok {
				if b {
					r = a
				}
			} else {
				r = valOf(c.Ite(lt.(Sym).T, termOf(c, a), termOf(c, r)), k)
			}
		}
		return r
	case "real":
		switch c := args[0].(type) {
		case complex64:
			return real(c)
		case complex128:
			return real(c)
		}
	case "imag":
		switch c := args[0].(type) {
		case complex64:
			return imag(c)
		case complex128:
			return imag(c)
		}
	case "complex":
		switch f := args[0].(type) {
		case float32:
			return complex(f, args[1].(float32))
		case float64:
			return complex(f, args[1].(float64))
		}
	case "panic":
		panic(targetPanic{v: args[0]})
	case "recover":
		return doRecover(g, caller)
	case "ssa:wrapnilchk":
		recv := args[0]
		if recv.(*value) == nil {
			rtPanic(g, fmt.Sprintf("value method (%s).%s called using nil *%s pointer", args[1], args[2], args[1]))
		}
		return recv
	case "ssa:deferstack":
		return &caller.defers
	}
	panic("unknown built-in: " + fn.Name())
}

// conv converts x of type t_src to t_dst.
func conv(g *G, t_dst, t_src types.Type, x value) value {
	ut_src := t_src.Underlying()
	ut_dst := t_dst.Underlying()
	c := g.ex.tc
	switch ut_src := ut_src.(type) {
	case *types.Pointer:
		if b, ok := ut_dst.(*types.Basic); ok && b.Kind() == types.UnsafePointer {
			return unsafe.Pointer(x.(*value))
		}
		if _, ok := ut_dst.(*types.Pointer); ok {
			return x
		}
	case *types.Slice:
		if _, ok := ut_dst.(*types.Slice); ok {
			return x
		}
		switch ut_src.Elem().Underlying().(*types.Basic).Kind() {
		case types.Byte:
			x := x.([]value)
			b := make([]byte, 0, len(x))
			for i := range x {
				b = append(b, x[i].(byte))
			}
			return string(b)
		case types.Rune:
			x := x.([]value)
			r := make([]rune, 0, len(x))
			for i := range x {
				r = append(r, x[i].(rune))
			}
			return string(r)
		}
	case *types.Basic:
		if ut_src.Kind() == types.UnsafePointer {
			return zero(t_dst)
		}
		if s, ok := x.(string); ok {
			switch ut_dst := ut_dst.(type) {
			case *types.Slice:
				var res []value
				switch ut_dst.Elem().Underlying().(*types.Basic).Kind() {
				case types.Rune:
					for _, r := range []rune(s) {
						res = append(res, r)
					}
					return res
				case types.Byte:
					for _, b := range []byte(s) {
						res = append(res, b)
					}
					return res
				}
			case *types.Basic:
				if ut_dst.Kind() == types.String {
					return s
				}
			}
			break
		}
		bd, ok := ut_dst.(*types.Basic)
		if !ok {
			break
		}
		kd := bd.Kind()
		ks := kindOf(x)
		if kd == types.String && isIntKind(ks) {
			if isSym(x) {
				panic(abortPath{"unsupported", "integer->string conversion of symbolic value"})
			}
			return string(rune(asInt64(x)))
		}
		if ut_src.Info()&types.IsComplex != 0 {
			switch kd {
			case types.Complex64:
				if v, ok := x.(complex128); ok {
					return complex64(v)
				}
				return x
			case types.Complex128:
				if v, ok := x.(complex64); ok {
					return complex128(v)
				}
				return x
			}
			break
		}
		if ut_src.Info()&types.IsNumeric != 0 && bd.Info()&types.IsNumeric != 0 {
			a := termOf(c, x)
			ws, wd := kindWidth(ks), kindWidth(kd)
			switch {
			case ws > 0 && wd > 0:
				return valOf(c.Resize(a, wd, kindSigned(ks)), kd)
			case ws > 0 && wd < 0:
				if wd == -32 {
					if a.IsConst() {
						if kindSigned(ks) {
							return float32(sext(a.val, ws))
						}
						return float32(a.val)
					}
				}
				return valOf(c.IntToFP(a, kindSigned(ks), wd), kd)
			case ws < 0 && wd > 0:
				if a.IsConst() {
					var f float64
					if ws == -64 {
						f = math.Float64frombits(a.val)
					} else {
						f = float64(math.Float32frombits(uint32(a.val)))
					}
					return convFloatToInt(f, kd)
				}
				return valOf(c.FPToInt(a, kindSigned(kd), wd), kd)
			default:
				return valOf(c.FPToFP(a, wd), kd)
			}
		}
	}
	panic(fmt.Sprintf("unsupported conversion: %s  -> %s, dynamic type %T", t_src, t_dst, x))
}

func convFloatToInt(f float64, kd types.BasicKind) value {
	switch kd {
	case types.Int:
		return int(f)
	case types.Int8:
		return int8(f)
	case types.Int16:
		return int16(f)
	case types.Int32:
		return int32(f)
	case types.Int64:
		return int64(f)
	case types.Uint:
		return uint(f)
	case types.Uint8:
		return uint8(f)
	case types.Uint16:
		return uint16(f)
	case types.Uint32:
		return uint32(f)
	case types.Uint64:
		return uint64(f)
	case types.Uintptr:
		return uintptr(f)
	}
	panic("convFloatToInt")
}
