package main

// Front end: type-check /repo with the harness overlay, build SSA with
// generics instantiated. Regenerated from the current source on every run.

import (
	"fmt"
	"go/token"
	"go/types"
	"os"
	"path/filepath"
	"strings"
	"sync"

	"golang.org/x/tools/go/packages"
	"golang.org/x/tools/go/ssa"
	"golang.org/x/tools/go/ssa/ssautil"
)

const modulePath = "github.com/tychoish/fun"

type Program struct {
	prog               *ssa.Program
	fset               *token.FileSet
	pkgs               map[string]*ssa.Package // by import path
	runtimeErrorString types.Type
	timeTime           types.Type
	ctxType            types.Type
	extCache           sync.Map
	repo               string
	loadSecs           float64
	harnessFiles       []string
	skippedOpt         string
}

var repoDir = "/repo"
var verifDir = "/verif"

func init() {
	if v := os.Getenv("VERIF_REPO"); v != "" {
		repoDir = v
	}
	if v := os.Getenv("VERIF_DIR"); v != "" {
		verifDir = v
	}
}

// harnessOverlay maps virtual files in the repo package directories to the
// harness sources under /verif/harness/<relpkg>/ (relpkg "." = root -> "root").
func harnessOverlay(relpkgs []string, native bool, withOpt bool) (map[string][]byte, []string, error) {
	ov := map[string][]byte{}
	var files []string
	for _, rp := range relpkgs {
		hdir := filepath.Join(verifDir, "harness", rp)
		if rp == "." {
			hdir = filepath.Join(verifDir, "harness", "root")
		}
		ents, err := os.ReadDir(hdir)
		if err != nil {
			return nil, nil, fmt.Errorf("harness dir %s: %w", hdir, err)
		}
		pkgdir := filepath.Join(repoDir, rp)
		pkgname, err := packageName(pkgdir)
		if err != nil {
			return nil, nil, err
		}
		for _, e := range ents {
			if !strings.HasSuffix(e.Name(), ".go") || !strings.HasPrefix(e.Name(), "zz_verif_") {
				continue
			}
			if !withOpt && strings.HasSuffix(e.Name(), "_opt.go") {
				continue
			}
			b, err := os.ReadFile(filepath.Join(hdir, e.Name()))
			if err != nil {
				return nil, nil, err
			}
			vp := filepath.Join(pkgdir, e.Name())
			ov[vp] = b
			files = append(files, vp)
		}
		// prelude
		pre := "prelude_sym.go.txt"
		if native {
			pre = "prelude_native.go.txt"
		}
		b, err := os.ReadFile(filepath.Join(verifDir, "harness", pre))
		if err != nil {
			return nil, nil, err
		}
		src := strings.Replace(string(b), "package PKG", "package "+pkgname, 1)
		vp := filepath.Join(pkgdir, "zz_verif_rt.go")
		ov[vp] = []byte(src)
		files = append(files, vp)
	}
	return ov, files, nil
}

func packageName(dir string) (string, error) {
	ents, err := os.ReadDir(dir)
	if err != nil {
		return "", err
	}
	for _, e := range ents {
		n := e.Name()
		if strings.HasSuffix(n, ".go") && !strings.HasSuffix(n, "_test.go") {
			b, err := os.ReadFile(filepath.Join(dir, n))
			if err != nil {
				continue
			}
			for _, line := range strings.Split(string(b), "\n") {
				line = strings.TrimSpace(line)
				if strings.HasPrefix(line, "package ") {
					return strings.Fields(line)[1], nil
				}
			}
		}
	}
	return "", fmt.Errorf("no package clause found in %s", dir)
}

// loadProgram loads the packages with every harness; if that fails to
// type-check and optional harnesses (zz_verif_*_opt.go: they touch private
// state) exist, it retries without them and records that they were skipped.
func loadProgram(relpkgs []string) (*Program, error) {
	p, err := loadProgramOpt(relpkgs, true)
	if err == nil {
		return p, nil
	}
	p2, err2 := loadProgramOpt(relpkgs, false)
	if err2 != nil {
		return nil, err
	}
	p2.skippedOpt = "optional private-state harnesses skipped (harness-build): " + firstLine(err.Error())
	return p2, nil
}

func loadProgramOpt(relpkgs []string, withOpt bool) (*Program, error) {
	ov, files, err := harnessOverlay(relpkgs, false, withOpt)
	if err != nil {
		return nil, err
	}
	cfg := &packages.Config{
		Mode:    packages.LoadAllSyntax,
		Dir:     repoDir,
		Overlay: ov,
		Env:     append(os.Environ(), "GOFLAGS=-mod=mod", "GOPROXY=off", "GOSUMDB=off", "GOTOOLCHAIN=local", "GOWORK=off"),
	}
	var pats []string
	for _, rp := range relpkgs {
		if rp == "." {
			pats = append(pats, ".")
		} else {
			pats = append(pats, "./"+rp)
		}
	}
	initial, err := packages.Load(cfg, pats...)
	if err != nil {
		return nil, err
	}
	var errs []string
	packages.Visit(initial, nil, func(p *packages.Package) {
		for _, e := range p.Errors {
			errs = append(errs, e.Error())
		}
	})
	if len(errs) > 0 {
		return nil, fmt.Errorf("harness-build: %s", strings.Join(errs, "; "))
	}
	prog, pkgs := ssautil.AllPackages(initial, ssa.InstantiateGenerics)
	prog.Build()
	p := &Program{prog: prog, pkgs: map[string]*ssa.Package{}, repo: repoDir, harnessFiles: files}
	p.fset = prog.Fset
	for _, sp := range prog.AllPackages() {
		p.pkgs[sp.Pkg.Path()] = sp
	}
	_ = pkgs
	rt := prog.ImportedPackage("runtime")
	if rt == nil {
		return nil, fmt.Errorf("runtime package not loaded")
	}
	p.runtimeErrorString = rt.Type("errorString").Object().Type()
	if tp := prog.ImportedPackage("time"); tp != nil {
		p.timeTime = tp.Type("Time").Object().Type()
	}
	if cp := prog.ImportedPackage("context"); cp != nil {
		p.ctxType = types.NewPointer(cp.Type("cancelCtx").Object().Type())
	}
	return p, nil
}

func (p *Program) isHarnessPos(pos token.Pos) bool {
	if pos == token.NoPos {
		return false
	}
	return strings.HasPrefix(filepath.Base(p.fset.Position(pos).Filename), "zz_verif_")
}

func (p *Program) findEntry(name string) *ssa.Function {
	for _, sp := range p.prog.AllPackages() {
		if !strings.HasPrefix(sp.Pkg.Path(), modulePath) {
			continue
		}
		if f := sp.Func(name); f != nil {
			return f
		}
	}
	return nil
}

// entries lists harness entry points with the given prefix (e.g. "VC19_").
func (p *Program) entries(prefix string) []*ssa.Function {
	var out []*ssa.Function
	for _, sp := range p.prog.AllPackages() {
		if !strings.HasPrefix(sp.Pkg.Path(), modulePath) {
			continue
		}
		for name, m := range sp.Members {
			if f, ok := m.(*ssa.Function); ok && strings.HasPrefix(name, prefix) && p.isHarnessPos(f.Pos()) {
				out = append(out, f)
			}
		}
	}
	for i := range out {
		for j := i + 1; j < len(out); j++ {
			if out[j].Name() < out[i].Name() {
				out[i], out[j] = out[j], out[i]
			}
		}
	}
	return out
}

func initAllowed(pkg *types.Package) bool {
	if pkg == nil {
		return false
	}
	pp := pkg.Path()
	return strings.HasPrefix(pp, modulePath) || pp == "io" || pp == "context"
}

// runInits runs the package initialisers of the module's packages (and io,
// context) for the entry's package; other packages' inits are skipped by
// extFor.
func (p *Program) runInits(g *G) {
	pkg := g.ex.entry.Pkg
	if init := pkg.Func("init"); init != nil {
		call(g, nil, 0, init, nil)
	}
}

// extFor returns the engine implementation for fn, if any.
func (p *Program) extFor(fn *ssa.Function) nativeFn {
	if v, ok := p.extCache.Load(fn); ok {
		if v == nil {
			return nil
		}
		f, _ := v.(nativeFn)
		return f
	}
	f := p.lookupExt(fn)
	if f == nil {
		p.extCache.Store(fn, nil)
	} else {
		p.extCache.Store(fn, f)
	}
	return f
}

func (p *Program) lookupExt(fn *ssa.Function) nativeFn {
	if fn.Parent() != nil {
		return nil
	}
	// package initialisers of packages that are not interpreted
	if fn.Name() == "init" && fn.Signature.Recv() == nil && fn.Pkg != nil && !initAllowed(fn.Pkg.Pkg) {
		return func(g *G, fr *frame, args []value) value { return nil }
	}
	o := fn
	if org := fn.Origin(); org != nil {
		o = org
	}
	name := o.String()
	// harness primitives: methods of type vfT in any package
	if recv := o.Signature.Recv(); recv != nil {
		if n, ok := types.Unalias(recv.Type()).(*types.Named); ok && n.Obj().Name() == "vfT" {
			if f, ok := vfFuncs[o.Name()]; ok {
				return f
			}
			panic("unknown vf primitive: " + o.Name())
		}
	}
	if f, ok := externals[name]; ok {
		return f
	}
	return nil
}
