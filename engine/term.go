package main

// SMT term DAG with light constant folding and SMT-LIB2 printing.
//
// Sorts: Bool (W==0), BitVec W (W in 8,16,32,64), Float64 (W==-64), Float32 (W==-32).
// Terms are hash-consed inside one TermCtx (one per explored path), so that
// structurally equal terms are pointer-equal and the solver session can name
// each node once with define-fun.

import (
	"fmt"
	"math"
	"math/bits"
	"strings"
)

type Term struct {
	id   int
	op   string
	args []*Term
	W    int    // sort, see above
	val  uint64 // for op=="const" (BV: value; Bool: 0/1; FP: IEEE bits)
	name string // for op=="var"
	aux  int    // extract hi/lo, extend amount packed: hi<<8|lo or amount
}

type TermCtx struct {
	hasFP bool
	tab   map[string]*Term
	nodes []*Term
	vars  []*Term
}

func NewTermCtx() *TermCtx {
	return &TermCtx{tab: map[string]*Term{}}
}

func (c *TermCtx) mk(op string, w int, val uint64, name string, aux int, args ...*Term) *Term {
	var sb strings.Builder
	sb.WriteString(op)
	fmt.Fprintf(&sb, "|%d|%d|%s|%d", w, val, name, aux)
	for _, a := range args {
		fmt.Fprintf(&sb, "|%d", a.id)
	}
	k := sb.String()
	if t, ok := c.tab[k]; ok {
		return t
	}
	if w < 0 {
		c.hasFP = true
	}
	t := &Term{id: len(c.nodes), op: op, args: args, W: w, val: val, name: name, aux: aux}
	c.nodes = append(c.nodes, t)
	c.tab[k] = t
	if op == "var" {
		c.vars = append(c.vars, t)
	}
	return t
}

func mask(w int) uint64 {
	if w >= 64 {
		return ^uint64(0)
	}
	return (uint64(1) << uint(w)) - 1
}

func (c *TermCtx) Var(name string, w int) *Term { return c.mk("var", w, 0, name, 0) }
func (c *TermCtx) BV(v uint64, w int) *Term     { return c.mk("const", w, v&mask(w), "", 0) }
func (c *TermCtx) Bool(b bool) *Term {
	if b {
		return c.mk("const", 0, 1, "", 0)
	}
	return c.mk("const", 0, 0, "", 0)
}
func (c *TermCtx) F64(f float64) *Term { return c.mk("const", -64, math.Float64bits(f), "", 0) }
func (c *TermCtx) F32(f float32) *Term {
	return c.mk("const", -32, uint64(math.Float32bits(f)), "", 0)
}

func (t *Term) IsConst() bool { return t.op == "const" }
func (t *Term) IsTrue() bool  { return t.op == "const" && t.W == 0 && t.val == 1 }
func (t *Term) IsFalse() bool { return t.op == "const" && t.W == 0 && t.val == 0 }

func sext(v uint64, w int) int64 {
	if w >= 64 {
		return int64(v)
	}
	sh := uint(64 - w)
	return int64(v<<sh) >> sh
}

// ---- boolean connectives

func (c *TermCtx) Not(a *Term) *Term {
	if a.IsConst() {
		return c.Bool(a.val == 0)
	}
	if a.op == "not" {
		return a.args[0]
	}
	return c.mk("not", 0, 0, "", 0, a)
}

func (c *TermCtx) And(a, b *Term) *Term {
	if a.IsFalse() || b.IsFalse() {
		return c.Bool(false)
	}
	if a.IsTrue() {
		return b
	}
	if b.IsTrue() {
		return a
	}
	if a == b {
		return a
	}
	return c.mk("and", 0, 0, "", 0, a, b)
}

func (c *TermCtx) Or(a, b *Term) *Term {
	if a.IsTrue() || b.IsTrue() {
		return c.Bool(true)
	}
	if a.IsFalse() {
		return b
	}
	if b.IsFalse() {
		return a
	}
	if a == b {
		return a
	}
	return c.mk("or", 0, 0, "", 0, a, b)
}

func (c *TermCtx) Ite(cond, a, b *Term) *Term {
	if cond.IsTrue() {
		return a
	}
	if cond.IsFalse() {
		return b
	}
	if a == b {
		return a
	}
	if a.W == 0 {
		if a.IsTrue() && b.IsFalse() {
			return cond
		}
		if a.IsFalse() && b.IsTrue() {
			return c.Not(cond)
		}
	}
	return c.mk("ite", a.W, 0, "", 0, cond, a, b)
}

func (c *TermCtx) Eq(a, b *Term) *Term {
	if a == b && a.W >= 0 {
		return c.Bool(true)
	}
	if a.IsConst() && b.IsConst() && a.W >= 0 {
		return c.Bool(a.val == b.val)
	}
	if a.W < 0 {
		// floating point equality (IEEE ==)
		if a.IsConst() && b.IsConst() {
			if a.W == -64 {
				return c.Bool(math.Float64frombits(a.val) == math.Float64frombits(b.val))
			}
			return c.Bool(math.Float32frombits(uint32(a.val)) == math.Float32frombits(uint32(b.val)))
		}
		return c.mk("fp.eq", 0, 0, "", 0, a, b)
	}
	if a.W == 0 {
		if a.IsConst() {
			a, b = b, a
		}
		if b.IsTrue() {
			return a
		}
		if b.IsFalse() {
			return c.Not(a)
		}
	}
	if a.id > b.id {
		a, b = b, a
	}
	return c.mk("=", 0, 0, "", 0, a, b)
}

// ---- bit-vector arithmetic

func (c *TermCtx) bvFold(op string, w int, x, y uint64) (uint64, bool) {
	m := mask(w)
	switch op {
	case "bvadd":
		return (x + y) & m, true
	case "bvsub":
		return (x - y) & m, true
	case "bvmul":
		return (x * y) & m, true
	case "bvand":
		return x & y, true
	case "bvor":
		return x | y, true
	case "bvxor":
		return x ^ y, true
	case "bvudiv":
		if y == 0 {
			return m, true
		}
		return x / y, true
	case "bvurem":
		if y == 0 {
			return x, true
		}
		return x % y, true
	case "bvsdiv":
		if y == 0 {
			return 0, false
		}
		sx, sy := sext(x, w), sext(y, w)
		if sy == -1 {
			return uint64(-sx) & m, true
		}
		return uint64(sx/sy) & m, true
	case "bvsrem":
		if y == 0 {
			return 0, false
		}
		sx, sy := sext(x, w), sext(y, w)
		if sy == -1 {
			return 0, true
		}
		return uint64(sx%sy) & m, true
	case "bvshl":
		if y >= uint64(w) {
			return 0, true
		}
		return (x << y) & m, true
	case "bvlshr":
		if y >= uint64(w) {
			return 0, true
		}
		return x >> y, true
	case "bvashr":
		sx := sext(x, w)
		if y >= uint64(w) {
			y = uint64(w - 1)
		}
		return uint64(sx>>y) & m, true
	}
	return 0, false
}

func (c *TermCtx) BVBin(op string, a, b *Term) *Term {
	if a.W != b.W {
		panic(fmt.Sprintf("BVBin width mismatch %s %d %d", op, a.W, b.W))
	}
	if a.IsConst() && b.IsConst() {
		if v, ok := c.bvFold(op, a.W, a.val, b.val); ok {
			return c.BV(v, a.W)
		}
	}
	// light identities
	switch op {
	case "bvadd":
		if a.IsConst() && a.val == 0 {
			return b
		}
		if b.IsConst() && b.val == 0 {
			return a
		}
	case "bvsub":
		if b.IsConst() && b.val == 0 {
			return a
		}
		if a == b {
			return c.BV(0, a.W)
		}
	case "bvmul":
		if a.IsConst() && a.val == 1 {
			return b
		}
		if b.IsConst() && b.val == 1 {
			return a
		}
		if (a.IsConst() && a.val == 0) || (b.IsConst() && b.val == 0) {
			return c.BV(0, a.W)
		}
	case "bvshl", "bvlshr", "bvashr":
		if b.IsConst() && b.val == 0 {
			return a
		}
	case "bvand":
		if (a.IsConst() && a.val == 0) || (b.IsConst() && b.val == 0) {
			return c.BV(0, a.W)
		}
	case "bvor", "bvxor":
		if a.IsConst() && a.val == 0 {
			return b
		}
		if b.IsConst() && b.val == 0 {
			return a
		}
	}
	return c.mk(op, a.W, 0, "", 0, a, b)
}

func (c *TermCtx) BVNeg(a *Term) *Term {
	if a.IsConst() {
		return c.BV(-a.val, a.W)
	}
	return c.mk("bvneg", a.W, 0, "", 0, a)
}

func (c *TermCtx) BVNot(a *Term) *Term {
	if a.IsConst() {
		return c.BV(^a.val, a.W)
	}
	return c.mk("bvnot", a.W, 0, "", 0, a)
}

// BVCmp: op in bvult bvule bvugt bvuge bvslt bvsle bvsgt bvsge
func (c *TermCtx) BVCmp(op string, a, b *Term) *Term {
	if a.IsConst() && b.IsConst() {
		x, y := a.val, b.val
		sx, sy := sext(x, a.W), sext(y, a.W)
		var r bool
		switch op {
		case "bvult":
			r = x < y
		case "bvule":
			r = x <= y
		case "bvugt":
			r = x > y
		case "bvuge":
			r = x >= y
		case "bvslt":
			r = sx < sy
		case "bvsle":
			r = sx <= sy
		case "bvsgt":
			r = sx > sy
		case "bvsge":
			r = sx >= sy
		}
		return c.Bool(r)
	}
	if a == b {
		switch op {
		case "bvule", "bvuge", "bvsle", "bvsge":
			return c.Bool(true)
		default:
			return c.Bool(false)
		}
	}
	return c.mk(op, 0, 0, "", 0, a, b)
}

func (c *TermCtx) Extract(a *Term, hi, lo int) *Term {
	w := hi - lo + 1
	if w == a.W {
		return a
	}
	if a.IsConst() {
		return c.BV(a.val>>uint(lo), w)
	}
	return c.mk("extract", w, 0, "", hi<<8|lo, a)
}

func (c *TermCtx) ZeroExt(a *Term, w int) *Term {
	if w == a.W {
		return a
	}
	if a.IsConst() {
		return c.BV(a.val, w)
	}
	return c.mk("zero_extend", w, 0, "", w-a.W, a)
}

func (c *TermCtx) SignExt(a *Term, w int) *Term {
	if w == a.W {
		return a
	}
	if a.IsConst() {
		return c.BV(uint64(sext(a.val, a.W)), w)
	}
	return c.mk("sign_extend", w, 0, "", w-a.W, a)
}

// Resize converts a BV of width a.W to width w; signed says how to extend.
func (c *TermCtx) Resize(a *Term, w int, signed bool) *Term {
	switch {
	case w == a.W:
		return a
	case w < a.W:
		return c.Extract(a, w-1, 0)
	case signed:
		return c.SignExt(a, w)
	default:
		return c.ZeroExt(a, w)
	}
}

// ---- floating point (RNE everywhere, as Go)

func (c *TermCtx) FPBin(op string, a, b *Term) *Term {
	if a.IsConst() && b.IsConst() && a.W == -64 {
		x, y := math.Float64frombits(a.val), math.Float64frombits(b.val)
		switch op {
		case "fp.add":
			return c.F64(x + y)
		case "fp.sub":
			return c.F64(x - y)
		case "fp.mul":
			return c.F64(x * y)
		case "fp.div":
			return c.F64(x / y)
		}
	}
	return c.mk(op, a.W, 0, "", 0, a, b)
}

func (c *TermCtx) FPCmp(op string, a, b *Term) *Term {
	if a.IsConst() && b.IsConst() && a.W == -64 {
		x, y := math.Float64frombits(a.val), math.Float64frombits(b.val)
		switch op {
		case "fp.lt":
			return c.Bool(x < y)
		case "fp.leq":
			return c.Bool(x <= y)
		case "fp.gt":
			return c.Bool(x > y)
		case "fp.geq":
			return c.Bool(x >= y)
		}
	}
	return c.mk(op, 0, 0, "", 0, a, b)
}

func (c *TermCtx) FPNeg(a *Term) *Term {
	if a.IsConst() && a.W == -64 {
		return c.F64(-math.Float64frombits(a.val))
	}
	return c.mk("fp.neg", a.W, 0, "", 0, a)
}

// IntToFP converts a BV to floating point of sort fw (-64/-32).
func (c *TermCtx) IntToFP(a *Term, signed bool, fw int) *Term {
	if a.IsConst() && fw == -64 {
		if signed {
			return c.F64(float64(sext(a.val, a.W)))
		}
		return c.F64(float64(a.val))
	}
	if signed {
		return c.mk("to_fp_s", fw, 0, "", 0, a)
	}
	return c.mk("to_fp_u", fw, 0, "", 0, a)
}

// FPToInt converts (round toward zero, as Go) to a BV of width w.
func (c *TermCtx) FPToInt(a *Term, signed bool, w int) *Term {
	if a.IsConst() && a.W == -64 {
		f := math.Float64frombits(a.val)
		if signed {
			return c.BV(uint64(int64(f)), w)
		}
		return c.BV(uint64(f), w)
	}
	if signed {
		return c.mk("fp.to_sbv", w, 0, "", 0, a)
	}
	return c.mk("fp.to_ubv", w, 0, "", 0, a)
}

func (c *TermCtx) FPToFP(a *Term, fw int) *Term {
	if a.W == fw {
		return a
	}
	if a.IsConst() {
		if fw == -64 {
			return c.F64(float64(math.Float32frombits(uint32(a.val))))
		}
		return c.F32(float32(math.Float64frombits(a.val)))
	}
	return c.mk("fp.to_fp", fw, 0, "", 0, a)
}

// ---- printing

func sortStr(w int) string {
	switch {
	case w == 0:
		return "Bool"
	case w == -64:
		return "(_ FloatingPoint 11 53)"
	case w == -32:
		return "(_ FloatingPoint 8 24)"
	default:
		return fmt.Sprintf("(_ BitVec %d)", w)
	}
}

func (t *Term) ref() string {
	switch t.op {
	case "var":
		return t.name
	case "const":
		return t.constStr()
	}
	return fmt.Sprintf("t%d", t.id)
}

func (t *Term) constStr() string {
	switch {
	case t.W == 0:
		if t.val == 1 {
			return "true"
		}
		return "false"
	case t.W == -64:
		return fmt.Sprintf("((_ to_fp 11 53) #x%016x)", t.val)
	case t.W == -32:
		return fmt.Sprintf("((_ to_fp 8 24) #x%08x)", t.val)
	case t.W%4 == 0:
		return fmt.Sprintf("#x%0*x", t.W/4, t.val)
	default:
		return fmt.Sprintf("#b%0*b", t.W, t.val)
	}
}

// body renders the defining expression of a non-leaf node using refs for args.
func (t *Term) body() string {
	a := func(i int) string { return t.args[i].ref() }
	switch t.op {
	case "not", "and", "or", "ite", "=", "bvadd", "bvsub", "bvmul", "bvand", "bvor", "bvxor",
		"bvudiv", "bvurem", "bvsdiv", "bvsrem", "bvshl", "bvlshr", "bvashr", "bvneg", "bvnot",
		"bvult", "bvule", "bvugt", "bvuge", "bvslt", "bvsle", "bvsgt", "bvsge",
		"fp.eq", "fp.lt", "fp.leq", "fp.gt", "fp.geq", "fp.neg":
		s := "(" + t.op
		for i := range t.args {
			s += " " + a(i)
		}
		return s + ")"
	case "fp.add", "fp.sub", "fp.mul", "fp.div":
		return fmt.Sprintf("(%s RNE %s %s)", t.op, a(0), a(1))
	case "extract":
		return fmt.Sprintf("((_ extract %d %d) %s)", t.aux>>8, t.aux&0xff, a(0))
	case "zero_extend", "sign_extend":
		return fmt.Sprintf("((_ %s %d) %s)", t.op, t.aux, a(0))
	case "to_fp_s":
		e, s := fpES(t.W)
		return fmt.Sprintf("((_ to_fp %d %d) RNE %s)", e, s, a(0))
	case "to_fp_u":
		e, s := fpES(t.W)
		return fmt.Sprintf("((_ to_fp_unsigned %d %d) RNE %s)", e, s, a(0))
	case "fp.to_fp":
		e, s := fpES(t.W)
		return fmt.Sprintf("((_ to_fp %d %d) RNE %s)", e, s, a(0))
	case "fp.to_sbv":
		return fmt.Sprintf("((_ fp.to_sbv %d) RTZ %s)", t.W, a(0))
	case "fp.to_ubv":
		return fmt.Sprintf("((_ fp.to_ubv %d) RTZ %s)", t.W, a(0))
	}
	panic("body: unknown op " + t.op)
}

func fpES(w int) (int, int) {
	if w == -64 {
		return 11, 53
	}
	return 8, 24
}

// Emit writes declarations/definitions for t's cone that are not yet in
// 'defined' (indexed by node id) and returns them in order.
func (c *TermCtx) Emit(t *Term, defined map[int]bool, out *strings.Builder) {
	if defined[t.id] {
		return
	}
	// iterative post-order to avoid deep recursion on long ite chains
	type fr struct {
		t *Term
		i int
	}
	st := []fr{{t, 0}}
	for len(st) > 0 {
		f := &st[len(st)-1]
		if defined[f.t.id] {
			st = st[:len(st)-1]
			continue
		}
		if f.i < len(f.t.args) {
			ch := f.t.args[f.i]
			f.i++
			if !defined[ch.id] {
				st = append(st, fr{ch, 0})
			}
			continue
		}
		n := f.t
		defined[n.id] = true
		switch n.op {
		case "var":
			if n.W < 0 {
				e, sg := fpES(n.W)
				fmt.Fprintf(out, "(declare-const %s__b (_ BitVec %d))\n(define-fun %s () %s ((_ to_fp %d %d) %s__b))\n", n.name, -n.W, n.name, sortStr(n.W), e, sg, n.name)
			} else {
				fmt.Fprintf(out, "(declare-const %s %s)\n", n.name, sortStr(n.W))
			}
		case "const":
		default:
			fmt.Fprintf(out, "(define-fun t%d () %s %s)\n", n.id, sortStr(n.W), n.body())
		}
		st = st[:len(st)-1]
	}
}

// Eval evaluates t under a model (variable name -> value bits).
// FP nodes are evaluated with Go float64 arithmetic (RNE).
func (c *TermCtx) Eval(t *Term, model map[string]uint64, memo map[int]uint64) uint64 {
	if v, ok := memo[t.id]; ok {
		return v
	}
	ev := func(i int) uint64 { return c.Eval(t.args[i], model, memo) }
	b2u := func(b bool) uint64 {
		if b {
			return 1
		}
		return 0
	}
	f64 := func(i int) float64 { return math.Float64frombits(ev(i)) }
	var r uint64
	switch t.op {
	case "var":
		r = model[t.name] & maskS(t.W)
	case "const":
		r = t.val
	case "not":
		r = 1 - ev(0)
	case "and":
		r = ev(0) & ev(1)
	case "or":
		r = ev(0) | ev(1)
	case "ite":
		if ev(0) == 1 {
			r = ev(1)
		} else {
			r = ev(2)
		}
	case "=":
		r = b2u(ev(0) == ev(1))
	case "bvneg":
		r = (-ev(0)) & mask(t.W)
	case "bvnot":
		r = (^ev(0)) & mask(t.W)
	case "bvult", "bvule", "bvugt", "bvuge", "bvslt", "bvsle", "bvsgt", "bvsge":
		x, y := ev(0), ev(1)
		w := t.args[0].W
		sx, sy := sext(x, w), sext(y, w)
		switch t.op {
		case "bvult":
			r = b2u(x < y)
		case "bvule":
			r = b2u(x <= y)
		case "bvugt":
			r = b2u(x > y)
		case "bvuge":
			r = b2u(x >= y)
		case "bvslt":
			r = b2u(sx < sy)
		case "bvsle":
			r = b2u(sx <= sy)
		case "bvsgt":
			r = b2u(sx > sy)
		case "bvsge":
			r = b2u(sx >= sy)
		}
	case "extract":
		r = (ev(0) >> uint(t.aux&0xff)) & mask(t.W)
	case "zero_extend":
		r = ev(0)
	case "sign_extend":
		r = uint64(sext(ev(0), t.args[0].W)) & mask(t.W)
	case "fp.eq":
		r = b2u(f64(0) == f64(1))
	case "fp.lt":
		r = b2u(f64(0) < f64(1))
	case "fp.leq":
		r = b2u(f64(0) <= f64(1))
	case "fp.gt":
		r = b2u(f64(0) > f64(1))
	case "fp.geq":
		r = b2u(f64(0) >= f64(1))
	case "fp.neg":
		r = math.Float64bits(-f64(0))
	case "fp.add":
		r = math.Float64bits(f64(0) + f64(1))
	case "fp.sub":
		r = math.Float64bits(f64(0) - f64(1))
	case "fp.mul":
		r = math.Float64bits(f64(0) * f64(1))
	case "fp.div":
		r = math.Float64bits(f64(0) / f64(1))
	case "to_fp_s":
		r = math.Float64bits(float64(sext(ev(0), t.args[0].W)))
	case "to_fp_u":
		r = math.Float64bits(float64(ev(0)))
	case "fp.to_sbv":
		r = uint64(int64(f64(0))) & mask(t.W)
	case "fp.to_ubv":
		r = uint64(f64(0)) & mask(t.W)
	default:
		if v, ok := c.bvFold(t.op, t.W, ev(0), ev(1)); ok {
			r = v
		} else if t.op == "bvsdiv" || t.op == "bvsrem" {
			// SMT-LIB semantics for division by zero
			x := ev(0)
			if t.op == "bvsrem" {
				r = x
			} else if sext(x, t.W) < 0 {
				r = 1
			} else {
				r = mask(t.W)
			}
		} else {
			panic("Eval: unknown op " + t.op)
		}
	}
	memo[t.id] = r
	return r
}

func maskS(w int) uint64 {
	if w == 0 {
		return 1
	}
	if w < 0 {
		return ^uint64(0)
	}
	return mask(w)
}

var _ = bits.Len64

// modelName is the name to ask the solver for (FP variables are backed by a
// bit-vector so that models are always bit patterns).
func (t *Term) modelName() string {
	if t.W < 0 {
		return t.name + "__b"
	}
	return t.name
}

// checkCmd: z3's incremental core is ~50x slower than its QF_BV tactic on the
// bit-vector queries produced here (measured), so name the tactic explicitly.
func (c *TermCtx) checkCmd() string {
	if c.hasFP {
		return "(check-sat-using qffp)\n"
	}
	return "(check-sat-using qfbv)\n"
}
