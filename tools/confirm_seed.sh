#!/bin/bash
# usage: confirm_seed.sh <srcdir> <pkgdir> <worktree> : confirm a seeded change in a scratch worktree
# prints: build ok?, suite result with change (flaky packages re-run up to 3x), demo with change (must fail), demo without (must pass)
SRC=$1; PKG=$2; WT=$3
export GOFLAGS=-mod=mod GOPROXY=off GOSUMDB=off GOTOOLCHAIN=local
cd $WT || exit 9
git checkout -q --detach main 2>/dev/null; git checkout -q -- . ; git clean -fdq
git apply $SRC/patch.diff || { echo "APPLY-FAILED"; exit 1; }
go build ./... || { echo "BUILD-FAILED"; git checkout -q -- .; exit 1; }
echo "build: ok"
FAILED=$(go test -vet=off -count=1 -timeout 25m ./... 2>&1 | grep -E "^(FAIL|---)" | grep "^FAIL" | awk '{print $2}' | sort -u)
for p in $FAILED; do
  ok=0
  for i in 1 2 3; do if go test -vet=off -count=1 -timeout 10m $p >/dev/null 2>&1; then ok=1; break; fi; done
  if [ $ok = 1 ]; then echo "suite: $p failed once, passed on re-run (timing flake)"; else echo "suite: $p FAILS REPEATEDLY"; fi
done
[ -z "$FAILED" ] && echo "suite: all packages pass with the change"
for f in $SRC/*_test.go; do cp $f $PKG/; done
if go test -vet=off -count=1 -timeout 10m -run 'ZZDemo' ./$PKG >/tmp/demo_with.log 2>&1; then echo "demo with change: PASSES (bad)"; else echo "demo with change: fails (good)"; fi
git apply -R $SRC/patch.diff
if go test -vet=off -count=1 -timeout 10m -run 'ZZDemo' ./$PKG >/tmp/demo_without.log 2>&1; then echo "demo without change: passes (good)"; else echo "demo without change: FAILS (bad)"; tail -5 /tmp/demo_without.log; fi
git checkout -q -- . ; git clean -fdq
