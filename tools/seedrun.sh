#!/bin/bash
# usage: seedrun.sh <patch.diff> <ID> [tier] : apply a seeded change to /repo, run the check, undo
P=$1; ID=$2; TIER=${3:-quick}
cd /repo || exit 9
git diff --quiet || { echo "/repo not clean"; exit 9; }
git apply "$P" || { echo "patch does not apply"; exit 9; }
( cd /verif && VERIF_EVIDENCE_DIR=/tmp/seed-ev ./bin/fsx check $ID --tier $TIER 2>&1 | grep -E "^(VIOLATION|OK|ERROR|INCONCLUSIVE|KNOWN|  entry)" | head -12 )
git -C /repo checkout -- .
rm -rf /tmp/seed-ev
