#!/usr/bin/env python3
# Regenerates /verif/MANIFEST.json from the table below (keeps it schema-valid).
import json, sys
ids=[json.loads(l)['id'] for l in open('/verif/properties.jsonl')]
LVL="bounded symbolic execution of the real Go SSA, each assertion decided by an SMT solver for all values within the stated bounds; "
checks={
 "C19":dict(text=LVL+"per-value bit-vector lemmas for every 64-bit v in [min,max] on a grid of histogram shapes built by the real New, plus whole-histogram walks (record, quantile at every rank, Min/Max, Export/Import, Merge) on small shapes with symbolic recorded values",
            note="shapes on the grid only; walks record <=2 (quick) / <=3 (thorough) distinct symbolic values; composition of lemmas into the quantile clause for big shapes is an argument in DESIGN.md; trusted: go/ssa, fsx interpreter, z3/cvc5",
            ref="§5 C19", tech="SSA symbolic execution + SMT (QF_BV), solver-decided"),
 "C17":dict(text=LVL+"lists of symbolic int64 keys under three comparators; sortedness, permutation, stability, IsSorted equivalence and Heap order are solver queries over all key values; list usability after sorting checked against the model",
            note="n<=5 (quick) / n<=6 (thorough) elements; comparators native, reversed, key>>1; trusted: go/ssa, fsx interpreter, sort.SliceStable stub (stable insertion sort driving the real less closure), z3/cvc5",
            ref="§5 C17", tech="SSA symbolic execution + SMT (QF_BV), solver-decided comparisons"),
 "C16":dict(text=LVL+"arbitrary single (quick) / pairs of (thorough) public List/Stack operations applied to canonical lists with symbolic values and handles chosen from every element ever returned; the full observation is compared with a ring/LIFO model after every step",
            note="list lengths <=3 and <=1, 11 operation kinds; JSON outside; two known findings (Swap, Item.Remove) are pinned by the existing tests and listed in known_findings.json; trusted: go/ssa, fsx interpreter, z3",
            ref="§5 C16", tech="SSA symbolic execution + SMT, case-split on operation/handle selectors"),
 "C18":dict(text=LVL+"every sequence of <=3 (quick) / <=4 (thorough) Set operations over the value domain {0,1,2}, ordered and unordered, compared with a reference set after every step; Equal against four kinds of second set",
            note="the value domain and operation selectors are case-split, so the solver's share is path feasibility only (stated in DESIGN); JSON outside; synchronized-set concurrency is covered by C13; trusted: go/ssa, fsx interpreter and its channel/goroutine model (unordered iteration runs through a goroutine)",
            ref="§5 C18", tech="SSA symbolic execution, exhaustive case-split of selectors within bounds"),
 "C12":dict(text=LVL+"every tree of error combinators within the bounds is built from selectors and the result is checked against the leaf multiset computed alongside: nil-ness, identity of a single plain error, errors.Is for every leaf and not for an unrelated sentinel, errors.As, Unwind multiset and most-recent-first order; Collector sequentially and under the scheduler",
            note="depth <=2, <=4 (quick) / <=5 (thorough) leaves; errors.Is/As are stubs implementing the documented algorithm over interpreted Is/As/Unwrap methods; fmt.Errorf stub builds the real *fmt.wrapError; the solver's share is small (typed-leaf payload equality, path feasibility)",
            ref="§5 C12", tech="SSA symbolic execution, case-split of tree selectors, SMT for payload equality"),
 "C07":dict(text=LVL+"scenarios of up to four client goroutines on Queue/Deque/Distributor run under a symbolic scheduler (explicit mutex/cond/channel/context models, sleep-set reduction, preemption bound); the wake-up clauses are assertions at quiescence, item values stay symbolic",
            note="<=2 waiters x <=2 producers (+ library helper goroutines), preemption bound 2 (Queue) / 1 (Deque) quick, 3 / 2 thorough; 'promptly' = at quiescence under weak fairness; spinning wait loops are treated as blocked (no-progress cycle detection); sleep sets are applied under the preemption bound (bound applies to the representative explored); trusted: sync/cond/channel/context models of DESIGN §3.2",
            ref="§5 C07", tech="SSA symbolic execution with symbolic scheduler (bounded, sleep sets) + SMT for data"),
 "C14":dict(text=LVL+"counter arithmetic of <=3 Add(num) calls with num symbolic (panic iff negative, unchanged on panic, Num = sum); scenarios of <=2 (3) workers started through Launch / Operation.Add / DoTimes / manual Add-Done and <=2 (3) concurrent waiters, cancellation of a waiter, reuse over two rounds, all under the symbolic scheduler; assertions at quiescence and by the waiter itself right after Wait returns",
            note="preemption bound 2 quick / 3 thorough (reuse 1 / 2); num in [-2^61,2^61] (counter overflow outside); 'always returns' = at quiescence under weak fairness; trusted: sync/cond/channel/context models of DESIGN §3.2",
            ref="§5 C14", tech="SSA symbolic execution with symbolic scheduler (bounded, sleep sets) + SMT for the counter arithmetic"),
 "C15":dict(text=LVL+"Once (10 wrapper kinds incl. ft.Once/OnceDo, adt.Once, Mnemonize) under concurrent callers with a symbolic result; Limit(n) with symbolic n, sequentially (solver decides executions = min(n,calls) and the cached last result) and with 2x2 concurrent calls (lock-free fast path explored by the scheduler); Lock/WithLock concurrency gauge; Retry(n) with symbolic n over every outcome sequence; PreHook/PostHook/Join order logs with live and cancelled contexts; Launch/Signal/Background/StartGroup waiters parked at quiescence while the background function is blocked",
            note="<=2 (quick) / <=3 (thorough) concurrent callers, preemption bound 2 / 3; n<=4, <=5 calls; TTL/Delay/After/Jitter/Interval (wall clock) outside; trusted: sync.Once/Mutex/atomic/channel models of DESIGN §3.2",
            ref="§5 C15", tech="SSA symbolic execution + SMT for n/count arithmetic, symbolic scheduler for the concurrent clauses"),
 "C05":dict(text=LVL+"(L2) one-step refinement: every option combination within the bounds, a canonical prefix of Add/Remove, optional Close, then 2 (3) arbitrary operations out of 9 compared with a reference FIFO (return values, Len, full drain; item values symbolic); (L2') one add/remove of the burst-credit tracker from an arbitrary valid private state with symbolic Float64 credit against the documented credit rules; (L1) happens-before race monitor on every concurrent execution; (cross-check) concurrent histories of 3 (4) operations of 10 kinds in 2 (3) goroutines under the symbolic scheduler, with a search for a real-time-consistent linearization explaining all return values and the final contents",
            note="hard limit <=4, prefix <=4 (5); tracker step: hard limit <=16; histories: unlimited and capacity-1 queues, preemption bound 2 (3); admission after a removal is specified only as {ok, ErrQueueNoCredit} below the hard limit (the credit granted by a removal and the dynamic soft quota are not documented); the reduction from 'lock discipline + one-step refinement' to linearizability of all histories is an argument (DESIGN C05), not a query; trusted: sync/cond/context models",
            ref="§5 C05", tech="SSA symbolic execution + SMT (BV, Float64 for the credit step), symbolic scheduler + linearization search for histories"),
 "C06":dict(text=LVL+"one-step refinement against a reference deque with capacity (unlimited, fixed capacity, quota tracker): prefix of pushes at either end, optional Close, then 2 (3) arbitrary operations out of 12, with Len and both non-destructive walks compared after every step (item values symbolic); happens-before race monitor on every concurrent execution; concurrent histories of 3 (4) operations of 12 kinds in 2 (3) goroutines under the symbolic scheduler with a search for a real-time-consistent linearization",
            note="capacity <=3, prefix <=3; histories: unlimited and capacity-1 deques, preemption bound 1 (2) because the deque's wait loops signal before every wait; quota-tracker Force pushes: only 'at most one eviction, from the opposite end, push succeeds, Len <= hard limit'; reduction to all histories is the DESIGN C05/C06 argument; trusted: sync/cond/context models",
            ref="§5 C06", tech="SSA symbolic execution + SMT for item values, symbolic scheduler + linearization search for histories"),
 "C20":dict(text=LVL+"one iterator goroutine against one mutator goroutine on Queue (Producer and Iterator) and Deque (forward/reverse x blocking/non-blocking producers) under the symbolic scheduler: every interleaving at lock-release granularity of <=3 mutations with each step of the iterator; strong clauses (order, exactly once, nothing skipped, not parked with an unseen item, EOF after Close, nothing removed) without removals, weak clauses (no panic, only values that were in the container, returns on Close/cancel) with removals; item values symbolic",
            note="initial contents <=2 items, mutator <=3 (queue) / <=2 (deque; 3 thorough) operations, preemption bound 2 / 1 (3 / 2 thorough); unlimited containers only; 'returns' = at quiescence under weak fairness; trusted: sync/cond/context models",
            ref="§5 C20", tech="SSA symbolic execution with symbolic scheduler (bounded, sleep sets) + SMT for item values"),
 "C13":dict(text=LVL+"for each type documented as safe (Queue, Deque, their Distributors and iterators, WaitGroup, Collector incl. the use of the returned error/iterator, adt.Map/Atomic/Synchronized/Once/Pool, synchronized dt.Set, Lock/Once/Limit wrappers) every unordered pair (thorough: triples) of public methods runs concurrently on one shared instance under the symbolic scheduler, and a happens-before (vector-clock, FastTrack-style) monitor over every interpreted memory access reports any conflicting pair of accesses not ordered by the synchronisation performed - whether or not the two accesses were adjacent in the explored schedule",
            note="weakest fit to the family (stated in DESIGN C13): the solver decides path feasibility only, the verdict per path is the monitor's; preemption bound 2; pubsub.Broker pairs are not included (see C08/C09 not-applicable reasons); trusted: the release/acquire edges of the sync/atomic/channel/context/sync.Map/sync.Pool models",
            ref="§5 C13", tech="SSA symbolic execution with symbolic scheduler + vector-clock happens-before monitor on every path"),
 "C02":dict(text=LVL+"operator pipelines over slices of symbolic ints built from selectors - 9 source constructors/conversions, stages Filter(x<t), Transform(x+c) with a skip/error/EOF/abort injected at a symbolic position, Join, Chain, Uniq (symbolic map keys resolved by solver-decided equalities), DropZeroValues, Buffer, Split(1), Channel/BufferedChannel, list conversion; sinks ReadOne loop (plus reads after the end), Slice, Count, Reduce, Indexed - compared elementwise with the same pure functions applied to the symbolic input; goroutine-backed stages run under the symbolic scheduler",
            note="sources <=3 elements; trees: <=3 elements, 2 (thorough 3) stages; preemption bound 1 for sources/single stages, non-preemptive for trees; JSON clauses outside (reflection/strconv); Join/Chain after a faulted stage excluded (statement silent); trusted: channel/Once/context models; interpreter mimics gc's evaluation order for `return v, f()` (Iterator.Slice relies on it)",
            ref="§5 C02", tech="SSA symbolic execution + SMT (QF_BV) over symbolic element values, parameters and fault positions"),
}
NA={}
m={"version":1,
 "setup_cmd":"cd /verif/engine && GOFLAGS=-mod=mod GOPROXY=off GOSUMDB=off GOTOOLCHAIN=local go build -o /verif/bin/fsx .",
 "hooks":{"guard":"verif","enable":"none needed: harnesses are injected with go/packages Overlay and go test -overlay; nothing is compiled into /repo","baseline_off_cmd":"cd /repo && GOFLAGS=-mod=mod go test -vet=off -count=1 -timeout 25m ./...","source_commits":[],"add_only":True},
 "engines":[{"name":"fsx","path":"/verif/engine","serves_properties":sorted(checks),"kind_free_text":"bounded symbolic executor for Go SSA (go/ssa v0.29.0) with SMT back end (z3/cvc5), symbolic scheduler for goroutines"}],
 "checks":[],"not_applicable":[]}
for i in ids:
    if i in checks:
        c=checks[i]
        m["checks"].append({"property_id":i,
          "quick_cmd":"./bin/fsx check %s --tier quick"%i,
          "thorough_cmd":"./bin/fsx check %s --tier thorough"%i,
          "evidence_file":"/verif/evidence/%s.json"%i,
          "replay_cmd_template":"./bin/fsx replay {path}",
          "engine":"fsx",
          "level_claimed":{"category":"other","text":c["text"],"design_ref":c["ref"]},
          "level_note":c["note"],"technique":c["tech"]})
    else:
        m["not_applicable"].append({"property_id":i,"reason":NA.get(i,"check not built yet (work in progress)")})
json.dump(m,open('/verif/MANIFEST.json','w'),indent=1)
print("checks:",len(m["checks"]),"na:",len(m["not_applicable"]))
