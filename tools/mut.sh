#!/bin/bash
# usage: mut.sh <ID> <relfile> <old> <new> [extra fsx args]
# applies one textual replacement to a scratch copy of /repo and runs the check on it
set -e
ID=$1; F=$2; OLD=$3; NEW=$4; shift 4
D=$(mktemp -d /tmp/fsx-mut-XXXX)
rsync -a --exclude .git /repo/ $D/
python3 - "$D/$F" "$OLD" "$NEW" <<'PY'
import sys
p,old,new=sys.argv[1:4]
s=open(p).read()
assert s.count(old)>=1, "pattern not found"
s=s.replace(old,new,1)
open(p,'w').write(s)
PY
(cd $D && GOFLAGS=-mod=mod GOPROXY=off GOSUMDB=off GOTOOLCHAIN=local go build ./... ) || { echo "MUTANT DOES NOT BUILD"; rm -rf $D; exit 2; }
VERIF_REPO=$D VERIF_EVIDENCE_DIR=$D/.ev /verif/bin/fsx check $ID --tier quick "$@" 2>&1 | grep -E "^(VIOLATION|OK|ERROR|INCONCLUSIVE|KNOWN|  entry)" | head -8
rm -rf $D
