package erc

import (
	"errors"

	"github.com/tychoish/fun/ers"
)

const (
	vc12A ers.Error = "sentinel-a"
	vc12B ers.Error = "sentinel-b"
	vc12C ers.Error = "sentinel-unrelated"
)

type vc12ptr struct{ n int }

func (e *vc12ptr) Error() string { return "ptr-error" }

func vc12leaf(i int) error {
	switch vf.Choice("leaf", 4) {
	case 1:
		return vc12A
	case 2:
		return vc12B
	case 3:
		return &vc12ptr{i}
	}
	return nil
}

// sequential Collector: holds exactly the non-nil errors added
func VC12_Collector() {
	ec := New()
	n := vf.Range("adds", 0, 3)
	var added []error
	for i := 0; i < n; i++ {
		e := vc12leaf(i)
		ec.Add(e)
		if e != nil {
			added = append(added, e)
		}
		vf.Assert(ec.Len() == len(added), "collector-len-differs-from-non-nil-adds")
	}
	r := ec.Resolve()
	vf.Reach("resolved")
	vf.Assert((r == nil) == (len(added) == 0), "collector-resolve-nil-iff-no-error-added")
	vf.Assert(ec.Ok() == (len(added) == 0), "collector-ok")
	vf.Assert(ec.HasErrors() == (len(added) != 0), "collector-haserrors")
	if r == nil {
		return
	}
	for _, e := range added {
		vf.Assert(errors.Is(r, e), "collector-errors-is-misses-an-added-error")
	}
	vf.Assert(!errors.Is(r, vc12C), "collector-errors-is-finds-unrelated-sentinel")
	un := ers.Unwind(r)
	vf.Assert(len(un) == len(added), "collector-unwind-length")
	for i := range added {
		if len(un) == len(added) {
			vf.Assert(un[len(un)-1-i] == added[i], "collector-unwind-order-not-most-recent-first")
		}
	}
}

// an error to add: a leaf, or an aggregate of leaves (a Stack handed to the
// collector); atoms = what the collector must list for it, in supply order
func vc12agg(i int) (error, []error, int) {
	switch vf.Choice("shape", 3) {
	case 1:
		a, b := error(&vc12ptr{10 + i}), error(vc12A)
		return ers.Join(a, b), []error{a, b}, 0
	case 2:
		a := error(&vc12ptr{20 + i})
		return ers.Wrap(a, "note"), []error{a}, 1
	}
	e := vc12leaf(i)
	if e == nil {
		return nil, nil, 0
	}
	return e, []error{e}, 0
}

// Collector under concurrency: adders (leaves and aggregates) and a reader;
// at quiescence it holds exactly what was added.
func VC12_CollectorConc() {
	ec := New()
	n := 2
	if vf.Thorough() {
		n = 3
	}
	var want []error
	notes := 0
	errs := make([]error, n)
	for i := 0; i < n; i++ {
		e, atoms, nn := vc12agg(i)
		errs[i] = e
		want = append(want, atoms...)
		notes += nn
	}
	for i := 0; i < n; i++ {
		i := i
		vf.Go(func() { ec.Add(errs[i]) })
	}
	vf.Go(func() {
		l := ec.Len()
		r := ec.Resolve()
		vf.Assert(l <= len(want)+notes, "collector-len-exceeds-adds")
		if r != nil {
			vf.Assert(!errors.Is(r, vc12C), "collector-errors-is-finds-unrelated-sentinel")
		}
	})
	vf.Quiesce()
	vf.Reach("conc-quiescent")
	r := ec.Resolve()
	vf.Assert((r == nil) == (len(want) == 0), "collector-resolve-nil-iff-no-error-added")
	vf.Assert(ec.Len() == len(want)+notes, "collector-len-differs-from-non-nil-adds")
	if r == nil {
		return
	}
	un := ers.Unwind(r)
	vf.Assert(len(un) == len(want)+notes, "collector-unwind-length")
	for _, e := range want {
		cnt := 0
		for _, u := range un {
			if u == e {
				cnt++
			}
		}
		wc := 0
		for _, w := range want {
			if w == e {
				wc++
			}
		}
		vf.Assert(cnt == wc, "collector-lost-or-duplicated-an-added-error")
		vf.Assert(errors.Is(r, e), "collector-errors-is-misses-an-added-error")
	}
}
