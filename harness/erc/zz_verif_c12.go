package erc

import (
	"errors"

	"github.com/tychoish/fun/ers"
)

const (
	vc12A ers.Error = "sentinel-a"
	vc12B ers.Error = "sentinel-b"
	vc12C ers.Error = "sentinel-unrelated"
)

type vc12ptr struct{ n int }

func (e *vc12ptr) Error() string { return "ptr-error" }

func vc12leaf(i int) error {
	switch vf.Choice("leaf", 4) {
	case 1:
		return vc12A
	case 2:
		return vc12B
	case 3:
		return &vc12ptr{i}
	}
	return nil
}

// sequential Collector: holds exactly the non-nil errors added
func VC12_Collector() {
	ec := New()
	n := vf.Range("adds", 0, 3)
	var added []error
	for i := 0; i < n; i++ {
		e := vc12leaf(i)
		ec.Add(e)
		if e != nil {
			added = append(added, e)
		}
		vf.Assert(ec.Len() == len(added), "collector-len-differs-from-non-nil-adds")
	}
	r := ec.Resolve()
	vf.Reach("resolved")
	vf.Assert((r == nil) == (len(added) == 0), "collector-resolve-nil-iff-no-error-added")
	vf.Assert(ec.Ok() == (len(added) == 0), "collector-ok")
	vf.Assert(ec.HasErrors() == (len(added) != 0), "collector-haserrors")
	if r == nil {
		return
	}
	for _, e := range added {
		vf.Assert(errors.Is(r, e), "collector-errors-is-misses-an-added-error")
	}
	vf.Assert(!errors.Is(r, vc12C), "collector-errors-is-finds-unrelated-sentinel")
	un := ers.Unwind(r)
	vf.Assert(len(un) == len(added), "collector-unwind-length")
	for i := range added {
		if len(un) == len(added) {
			vf.Assert(un[len(un)-1-i] == added[i], "collector-unwind-order-not-most-recent-first")
		}
	}
}
