package erc

import (
	"context"
	"errors"

	"github.com/tychoish/fun/ers"
)

func VC13_Collector() {
	ec := New()
	if vf.Choice("prefilled", 2) == 1 {
		ec.Add(vc12A)
	}
	ctx := context.Background()
	ops := []func(){
		func() { ec.Add(vc12B) },
		func() { ec.Add(ers.Join(&vc12ptr{1}, vc12A)) },
		func() { _ = ec.Len() },
		func() {
			// the returned error is used by the caller
			if err := ec.Resolve(); err != nil {
				_ = errors.Is(err, vc12C)
				_ = ers.Unwind(err)
				_ = err.Error()
			}
		},
		func() {
			it := ec.Iterator()
			for i := 0; i < 4 && it.Next(ctx); i++ {
				_ = it.Value()
			}
		},
		func() { _ = ec.HasErrors(); _ = ec.Ok() },
		func() { Recover(ec) },
	}
	a := vf.Choice("a", len(ops))
	b := vf.Choice("b", len(ops))
	if b < a {
		vf.Assume(false)
	}
	vf.Go(ops[a])
	vf.Go(ops[b])
	if vf.Thorough() {
		c := vf.Choice("c", len(ops))
		if c < b {
			vf.Assume(false)
		}
		vf.Go(ops[c])
	}
	vf.Quiesce()
	vf.Reach("collector-pairs")
}
