package internal

func VTV_Basic() {
	x := vf.Int("x")
	vf.Assume(x > 0)
	vf.Assume(x < 100)
	y := x * 2
	vf.Reach("body")
	vf.Assert(y > x, "double-greater")
}

func VTV_Fail() {
	x := vf.Int("x")
	y := vf.Int("y")
	vf.Assume(x > 0)
	vf.Assume(y > 0)
	vf.Assume(y < 1000)
	if x%7 == 3 {
		vf.Assert(x+y != 1010, "tv-fail")
	}
}
