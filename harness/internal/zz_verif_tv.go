package internal

import (
	"context"
	"sync"
	"sync/atomic"
)

// Model-validation corpus: small programs whose complete set of outcomes is
// known. Every allowed outcome carries a Reach marker (the engine fails the
// run if one is never reached - that would mean over-pruning or a too-strong
// model), and outcomes outside the set are asserted unreachable.

func VTV_Basic() {
	x := vf.Int("x")
	vf.Assume(x > 0)
	vf.Assume(x < 100)
	y := x * 2
	vf.Reach("body")
	vf.Assert(y > x, "double-greater")
}

func VTV_Wrap() {
	x := vf.Int64("x")
	var s int8 = int8(x)
	u := uint8(s)
	vf.Assert(int64(u) == (x&0xff), "int8-uint8-conversion")
	sh := uint(vf.Int("sh") & 127)
	one := int64(1)
	r := one << sh
	vf.Assert(vf.Implies(sh >= 64, r == 0), "shift-ge-width-is-zero")
	neg := int64(-8)
	vf.Assert(vf.Implies(sh >= 64, neg>>sh == -1), "arith-shift-ge-width-is-sign")
	vf.Reach("done")
}

func VTV_MessagePassing() {
	var flag atomic.Int64
	x := 0
	r := -2
	vf.Go(func() { x = 1; flag.Store(1) })
	vf.Go(func() {
		if flag.Load() == 1 {
			r = x
		} else {
			r = -1
		}
	})
	vf.Quiesce()
	if r == 1 {
		vf.Reach("saw-flag")
	}
	if r == -1 {
		vf.Reach("no-flag")
	}
	vf.Assert(r == 1 || r == -1, "message-passing-outcome")
}

func VTV_StoreBuffering() {
	var x, y atomic.Int64
	r1, r2 := int64(-1), int64(-1)
	vf.Go(func() { x.Store(1); r1 = y.Load() })
	vf.Go(func() { y.Store(1); r2 = x.Load() })
	vf.Quiesce()
	switch {
	case r1 == 0 && r2 == 1:
		vf.Reach("01")
	case r1 == 1 && r2 == 0:
		vf.Reach("10")
	case r1 == 1 && r2 == 1:
		vf.Reach("11")
	default:
		vf.Assert(false, "store-buffering-00-under-sc")
	}
}

func VTV_AtomicLostUpdate() {
	var a atomic.Int64
	for i := 0; i < 2; i++ {
		vf.Go(func() { t := a.Load(); a.Store(t + 1) })
	}
	vf.Quiesce()
	switch a.Load() {
	case 1:
		vf.Reach("lost")
	case 2:
		vf.Reach("both")
	default:
		vf.Assert(false, "lost-update-outcome")
	}
}

func VTV_MutexCounter() {
	var mu sync.Mutex
	n := 0
	for i := 0; i < 3; i++ {
		vf.Go(func() { mu.Lock(); n++; mu.Unlock() })
	}
	vf.Quiesce()
	vf.Reach("done")
	vf.Assert(n == 3, "mutex-counter")
}

func VTV_Permutations() {
	var mu sync.Mutex
	log := 0
	for i := 1; i <= 3; i++ {
		i := i
		vf.Go(func() { mu.Lock(); log = log*10 + i; mu.Unlock() })
	}
	vf.Quiesce()
	switch log {
	case 123:
		vf.Reach("123")
	case 132:
		vf.Reach("132")
	case 213:
		vf.Reach("213")
	case 231:
		vf.Reach("231")
	case 312:
		vf.Reach("312")
	case 321:
		vf.Reach("321")
	default:
		vf.Assert(false, "permutation-outcome")
	}
}

func VTV_CondVar() {
	var mu sync.Mutex
	cond := sync.NewCond(&mu)
	ready := false
	served := false
	vf.Go(func() {
		mu.Lock()
		for !ready {
			cond.Wait()
		}
		served = true
		mu.Unlock()
	})
	vf.Go(func() { mu.Lock(); ready = true; cond.Signal(); mu.Unlock() })
	vf.Quiesce()
	vf.Reach("done")
	vf.Assert(served, "condvar-waiter-served")
}

// signal without holding the lock and a predicate that is checked outside the
// lock: the classic lost wake-up must be found (waiter parked for ever).
func VTV_CondVarLostWakeup() {
	var mu sync.Mutex
	cond := sync.NewCond(&mu)
	var ready atomic.Bool
	served := false
	vf.Go(func() {
		if !ready.Load() {
			mu.Lock()
			cond.Wait()
			mu.Unlock()
		}
		served = true
	})
	vf.Go(func() { ready.Store(true); cond.Signal() })
	vf.Quiesce()
	if served {
		vf.Reach("served")
	} else {
		vf.Reach("lost-wakeup")
	}
}

func VTV_Channels() {
	ch := make(chan int)
	buf := make(chan int, 2)
	sum := 0
	vf.Go(func() { ch <- 1; ch <- 2; close(ch) })
	vf.Go(func() {
		for v := range ch {
			buf <- v * 10
		}
		close(buf)
	})
	vf.Go(func() {
		for v := range buf {
			sum += v
		}
	})
	vf.Quiesce()
	vf.Reach("done")
	vf.Assert(sum == 30, "channel-pipeline-sum")
	vf.Assert(vf.Live() == 0, "no-library-goroutines")
}

func VTV_Select() {
	a := make(chan int, 1)
	b := make(chan int, 1)
	a <- 1
	b <- 2
	got := 0
	select {
	case v := <-a:
		got = v
	case v := <-b:
		got = v
	}
	if got == 1 {
		vf.Reach("a")
	} else if got == 2 {
		vf.Reach("b")
	} else {
		vf.Assert(false, "select-outcome")
	}
	// default only when nothing is ready
	c := make(chan int)
	select {
	case <-c:
		vf.Assert(false, "select-recv-on-empty")
	default:
		vf.Reach("default")
	}
}

func VTV_Once() {
	var once sync.Once
	count := 0
	done := [2]bool{}
	for i := 0; i < 2; i++ {
		i := i
		vf.Go(func() {
			once.Do(func() { count++; vf.Yield() })
			vf.Assert(count == 1, "once-caller-returned-before-completion")
			done[i] = true
		})
	}
	vf.Quiesce()
	vf.Reach("done")
	vf.Assert(count == 1 && done[0] && done[1], "once-outcome")
}

func VTV_Context() {
	ctx, cancel := context.WithCancel(context.Background())
	child, cancel2 := context.WithCancel(ctx)
	defer cancel2()
	exited := false
	var err error
	vf.Go(func() { <-child.Done(); err = child.Err(); exited = true })
	vf.Quiesce()
	vf.Assert(!exited, "context-done-before-cancel")
	cancel()
	vf.Quiesce()
	vf.Reach("cancelled")
	vf.Assert(exited, "context-child-not-cancelled")
	vf.Assert(err == context.Canceled, "context-err-not-canceled")
	vf.Assert(ctx.Err() == context.Canceled, "context-parent-err")
}

func VTV_WaitGroup() {
	var wg sync.WaitGroup
	var n atomic.Int64
	for i := 0; i < 2; i++ {
		wg.Add(1)
		go func() { defer wg.Done(); n.Add(1) }()
	}
	wg.Wait()
	vf.Reach("done")
	vf.Assert(n.Load() == 2, "waitgroup-wait-returned-early")
}

func VTV_Defer() (r int) {
	defer func() {
		if p := recover(); p != nil {
			r = 7
			vf.Reach("recovered")
		}
	}()
	var m map[string]int
	m["x"] = 1
	vf.Assert(false, "nil-map-assignment-did-not-panic")
	return 0
}

type vtvS struct {
	a, b int
	in   [2]int
}

func VTV_StructCopy() {
	s := vtvS{a: 1, b: vf.Int("b")}
	t := s
	t.a = 5
	t.in[1] = 9
	p := &s
	q := *p
	q.b = 0
	vf.Reach("done")
	vf.Assert(s.a == 1 && s.in[1] == 0, "struct-copy-aliases")
	vf.Assert(p.b == s.b, "pointer-deref-copy")
	sl := []int{1, 2, 3}
	sl2 := sl[:2]
	sl2 = append(sl2, 42)
	vf.Assert(sl[2] == 42, "slice-append-aliasing")
	m := map[int]int{}
	k := vf.Int("k")
	vf.Assume(k >= 0)
	vf.Assume(k < 3)
	m[k] = 1
	m[1] += 10
	vf.Assert(vf.Implies(k == 1, m[1] == 11), "map-symbolic-key")
	vf.Assert(vf.Implies(k != 1, m[1] == 10), "map-symbolic-key-2")
}

// Two waiters that wake each other for ever (Signal before Wait) must be
// recognised as a no-progress cycle, i.e. treated as blocked.
func VTV_PingPongSpin() {
	var mu sync.Mutex
	cond := sync.NewCond(&mu)
	ready := false
	served := 0
	for i := 0; i < 2; i++ {
		vf.Go(func() {
			mu.Lock()
			for !ready {
				cond.Signal()
				cond.Wait()
			}
			served++
			mu.Unlock()
		})
	}
	vf.Quiesce()
	vf.Reach("spinning-treated-as-quiescent")
	vf.Assert(served == 0, "served-before-ready")
	mu.Lock()
	ready = true
	cond.Broadcast()
	mu.Unlock()
	vf.Quiesce()
	vf.Reach("released")
	vf.Assert(served == 2, "spinners-not-released-after-progress")
}

// ---- cases added with the engine changes of the build sessions

// gc reads a plain variable in `return v, f()` after the call (go/ssa reads it
// before); Iterator.Slice relies on it.
func vtvCollect(n int) (out []int, _ int) {
	add := func() int {
		for i := 0; i < n; i++ {
			out = append(out, i)
		}
		return n
	}
	return out, add()
}

func VTV_ReturnOrder() {
	out, n := vtvCollect(3)
	vf.Reach("returned")
	vf.Assert(n == 3 && len(out) == 3, "return-operand-read-before-the-call")
}

// symbolic scalar map keys: equality with the keys present is solver-decided
func VTV_SymbolicMapKeys() {
	m := map[int]int{}
	a, b := vf.Int("a"), vf.Int("b")
	m[a] = 1
	m[b] = 2
	if a == b {
		vf.Reach("same-key")
		vf.Assert(len(m) == 1 && m[a] == 2, "symbolic-keys-equal")
	} else {
		vf.Reach("different-keys")
		vf.Assert(len(m) == 2 && m[a] == 1 && m[b] == 2, "symbolic-keys-different")
	}
	delete(m, a)
	_, ok := m[a]
	vf.Assert(!ok, "deleted-symbolic-key-still-present")
}

// a full buffered channel is not sendable although a receiver is about to run
func VTV_FullBufferedChannel() {
	ch := make(chan int, 1)
	ch <- 1
	got := make([]int, 0, 2)
	vf.Go(func() { ch <- 2 })
	vf.Go(func() { got = append(got, <-ch); got = append(got, <-ch) })
	vf.Quiesce()
	vf.Reach("drained")
	vf.Assert(len(got) == 2 && got[0] == 1 && got[1] == 2, "buffered-channel-order")
}

// a non-blocking send succeeds iff the receiver has parked already: both
// outcomes must be reachable
func VTV_NonBlockingSendVsLateReceiver() {
	ch := make(chan int)
	sent := false
	got := 0
	ctx, cancel := context.WithCancel(context.Background())
	vf.Go(func() {
		select {
		case v := <-ch:
			got = v
		case <-ctx.Done():
		}
	})
	vf.Go(func() {
		select {
		case ch <- 7:
			sent = true
		default:
		}
	})
	vf.Quiesce()
	if sent {
		vf.Reach("receiver-was-parked")
		vf.Assert(got == 7, "handed-value")
	} else {
		vf.Reach("receiver-was-late")
		vf.Assert(got == 0, "nothing-handed")
	}
	cancel()
	vf.Quiesce()
}

// Put(x) synchronizes before the Get that returns x
func VTV_PoolHandOff() {
	p := &sync.Pool{New: func() any { return new(int) }}
	vf.Go(func() { v := p.Get().(*int); *v = 1; p.Put(v) })
	vf.Go(func() { v := p.Get().(*int); *v = 2; p.Put(v) })
	vf.Quiesce()
	vf.Reach("pool-done")
}
