package ers

import (
	"errors"
	"fmt"
)

// C12: trees of error combinators chosen by selectors; the oracle (leaf
// multiset, expected Unwind order) is computed while the tree is built.

const (
	vc12A Error = "sentinel-a"
	vc12B Error = "sentinel-b"
	vc12C Error = "sentinel-unrelated"
)

type vc12ptr struct{ n int }

func (e *vc12ptr) Error() string { return "ptr-error" }

type vc12typed struct{ Code int }

func (e vc12typed) Error() string { return "typed-error" }

type vc12node struct {
	err    error
	atoms  []error // what Unwind of an enclosing aggregate should list for this node, supply order
	annot  []bool  // atoms[i] is an internally created annotation (matched by message)
	leaves []error // every non-nil leaf supplied below this node
	plain  bool    // a single plain leaf
}

type vc12b struct {
	budget int
	nptr   int
	shape  string
}

func (b *vc12b) leaf() vc12node {
	if b.budget <= 0 {
		b.shape += "nil "
		return vc12node{}
	}
	b.budget--
	switch vf.Choice("leaf", 5) {
	case 1:
		b.shape += "A "
		return vc12node{err: vc12A, atoms: []error{vc12A}, annot: []bool{false}, leaves: []error{vc12A}, plain: true}
	case 2:
		b.shape += "B "
		return vc12node{err: vc12B, atoms: []error{vc12B}, annot: []bool{false}, leaves: []error{vc12B}, plain: true}
	case 3:
		b.nptr++
		e := &vc12ptr{b.nptr}
		b.shape += "P "
		return vc12node{err: e, atoms: []error{e}, annot: []bool{false}, leaves: []error{e}, plain: true}
	case 4:
		e := vc12typed{Code: vf.Int("code")}
		b.shape += "T "
		return vc12node{err: e, atoms: []error{e}, annot: []bool{false}, leaves: []error{e}, plain: true}
	}
	b.shape += "nil "
	return vc12node{}
}

// flat is what an enclosing Join/Stack lists for child c.
func vc12flat(c vc12node) ([]error, []bool) { return c.atoms, c.annot }

func (b *vc12b) build(depth int) vc12node {
	if depth == 0 {
		return b.leaf()
	}
	switch vf.Choice("kind", 6) {
	case 0:
		return b.leaf()
	case 1: // ers.Join of two
		b.shape += "Join( "
		c1, c2 := b.build(depth-1), b.build(depth-1)
		b.shape += ") "
		n := vc12node{err: Join(c1.err, c2.err)}
		n.atoms = append(append(n.atoms, c1.atoms...), c2.atoms...)
		n.annot = append(append(n.annot, c1.annot...), c2.annot...)
		n.leaves = append(append(n.leaves, c1.leaves...), c2.leaves...)
		n.plain = len(n.atoms) == 1 && (c1.plain || c2.plain)
		return n
	case 2: // ers.Wrap
		b.shape += "Wrap( "
		c := b.build(depth - 1)
		b.shape += ") "
		n := vc12node{err: Wrap(c.err, "note")}
		if c.err == nil {
			return n
		}
		n.atoms = append(append(n.atoms, c.atoms...), nil)
		n.annot = append(append(n.annot, c.annot...), true)
		n.leaves = c.leaves
		return n
	case 3: // fmt.Errorf %w (only over a non-nil error)
		b.shape += "Errorf( "
		c := b.build(depth - 1)
		b.shape += ") "
		if c.err == nil {
			return c
		}
		w := fmt.Errorf("ctx: %w", c.err)
		return vc12node{err: w, atoms: []error{w}, annot: []bool{false}, leaves: c.leaves}
	case 4: // errors.Join
		b.shape += "errors.Join( "
		c1, c2 := b.build(depth-1), b.build(depth-1)
		b.shape += ") "
		n := vc12node{err: errors.Join(c1.err, c2.err)}
		n.atoms = append(append(n.atoms, c1.atoms...), c2.atoms...)
		n.annot = append(append(n.annot, c1.annot...), c2.annot...)
		n.leaves = append(append(n.leaves, c1.leaves...), c2.leaves...)
		return n
	default: // ParsePanic
		b.shape += "ParsePanic( "
		c := b.build(depth - 1)
		b.shape += ") "
		var r any
		if c.err != nil {
			r = c.err
		}
		n := vc12node{err: ParsePanic(r)}
		if c.err == nil {
			return n
		}
		n.atoms = append(append(n.atoms, c.atoms...), ErrRecoveredPanic)
		n.annot = append(append(n.annot, c.annot...), false)
		n.leaves = append(append(n.leaves, c.leaves...), ErrRecoveredPanic)
		return n
	}
}

func vc12check(b *vc12b, top vc12node, viaStack bool) {
	r := top.err
	vf.Notef("tree: %s", b.shape)
	vf.Reach("built")
	vf.Assert((r == nil) == (len(top.atoms) == 0), "result-nil-iff-no-error-supplied")
	if r == nil {
		return
	}
	if top.plain && !viaStack {
		vf.Assert(r == top.atoms[0], "join-of-single-plain-error-is-not-that-error")
	}
	for _, l := range top.leaves {
		vf.Assert(errors.Is(r, l), "errors-is-misses-a-constituent")
	}
	vf.Assert(!errors.Is(r, vc12C), "errors-is-finds-unrelated-sentinel")
	var wantTyped, wantPtr bool
	for _, l := range top.leaves {
		switch l.(type) {
		case vc12typed:
			wantTyped = true
		case *vc12ptr:
			wantPtr = true
		}
	}
	var t vc12typed
	vf.Assert(errors.As(r, &t) == wantTyped, "errors-as-typed-disagrees")
	var p *vc12ptr
	vf.Assert(errors.As(r, &p) == wantPtr, "errors-as-pointer-disagrees")
	un := Unwind(r)
	// a result is a value: building further aggregates from it must not change it
	before := append([]error(nil), un...)
	r2 := Join(r, vc12C)
	_ = Wrap(r, "again")
	st2 := &Stack{}
	st2.Push(r)
	st2.Push(vc12C)
	_ = errors.Join(r, vc12C)
	vf.Assert(errors.Is(r2, vc12C), "join-onto-a-result-loses-the-new-error")
	for _, l := range top.leaves {
		vf.Assert(errors.Is(r2, l), "join-onto-a-result-loses-a-constituent")
	}
	after := Unwind(r)
	vf.Assert(len(after) == len(before), "result-changed-by-reusing-it-as-an-operand")
	for i := range before {
		if len(after) == len(before) {
			vf.Assert(after[i] == before[i], "result-changed-by-reusing-it-as-an-operand")
		}
	}
	vf.Assert(!errors.Is(r, vc12C), "result-changed-by-reusing-it-as-an-operand")
	if len(top.atoms) == 1 {
		// a single constituent (possibly a wrapper whose chain is also listed)
		cnt := 0
		for _, u := range un {
			if !top.annot[0] && u == top.atoms[0] {
				cnt++
			}
		}
		vf.Assert(cnt == 1, "unwind-does-not-list-the-single-constituent-once")
		return
	}
	vf.Assert(len(un) == len(top.atoms), "unwind-length-differs-from-supplied-constituents")
	if len(un) != len(top.atoms) {
		return
	}
	// multiset first (nothing lost or invented), then order (most recent first)
	used := make([]bool, len(un))
	for i := range top.atoms {
		found := false
		for j := range un {
			if used[j] {
				continue
			}
			if (top.annot[i] && un[j].Error() == "note") || (!top.annot[i] && un[j] == top.atoms[i]) {
				used[j] = true
				found = true
				break
			}
		}
		vf.Assert(found, "unwind-loses-or-invents-a-constituent")
	}
	n := len(un)
	for i := range top.atoms {
		u := un[n-1-i]
		if top.annot[i] {
			vf.Assert(u.Error() == "note", "unwind-order-not-most-recent-first")
		} else {
			vf.Assert(u == top.atoms[i], "unwind-order-not-most-recent-first")
		}
	}
}

func vc12depth() (int, int) {
	if vf.Thorough() {
		return 2, 5
	}
	return 2, 4
}

// top level: ers.Join of two or three subtrees
func VC12_JoinTree() {
	d, budget := vc12depth()
	b := &vc12b{budget: budget}
	n := vf.Range("arity", 2, 3)
	var top vc12node
	var errs []error
	for i := 0; i < n; i++ {
		c := b.build(d - 1)
		errs = append(errs, c.err)
		top.atoms = append(top.atoms, c.atoms...)
		top.annot = append(top.annot, c.annot...)
		top.leaves = append(top.leaves, c.leaves...)
		if c.plain {
			top.plain = true
		}
	}
	top.plain = top.plain && len(top.atoms) == 1
	top.err = Join(errs...)
	vc12check(b, top, false)
}

// top level: a Stack built with Push, used as an error
func VC12_StackTree() {
	d, budget := vc12depth()
	b := &vc12b{budget: budget}
	n := vf.Range("pushes", 1, 3)
	st := &Stack{}
	var top vc12node
	for i := 0; i < n; i++ {
		c := b.build(d - 1)
		st.Push(c.err)
		top.atoms = append(top.atoms, c.atoms...)
		top.annot = append(top.annot, c.annot...)
		top.leaves = append(top.leaves, c.leaves...)
	}
	vf.Assert(st.Len() == len(top.atoms), "stack-len-differs-from-supplied-constituents")
	top.err = st.Resolve()
	vc12check(b, top, true)
}
