package dt

import (
	"context"

	"github.com/tychoish/fun"
)

// C18: Set against a reference (slice without duplicates in first-insertion
// order, sorted after a Sort). Values range over {0,1,2} to force collisions.

type vc18m struct {
	s       *Set[int]
	order   []int // members in iteration order (meaningful when ordered)
	ordered bool
	ctx     string
}

func (m *vc18m) lab(l string) string { return l + "@" + m.ctx }
func (m *vc18m) op(n string) {
	if m.ctx != "" {
		m.ctx += ">"
	}
	m.ctx += n
}

func (m *vc18m) has(v int) bool {
	for _, x := range m.order {
		if x == v {
			return true
		}
	}
	return false
}

func (m *vc18m) add(v int) bool {
	if m.has(v) {
		return true
	}
	m.order = append(m.order, v)
	return false
}

func (m *vc18m) del(v int) bool {
	for i, x := range m.order {
		if x == v {
			m.order = append(append([]int(nil), m.order[:i]...), m.order[i+1:]...)
			return true
		}
	}
	return false
}

func (m *vc18m) sort(rev bool) {
	o := m.order
	for i := 0; i < len(o); i++ {
		for j := 0; j+1 < len(o)-i; j++ {
			if (!rev && o[j] > o[j+1]) || (rev && o[j] < o[j+1]) {
				o[j], o[j+1] = o[j+1], o[j]
			}
		}
	}
	m.ordered = true
}

func vc18drain(it *fun.Iterator[int], max int) ([]int, bool) {
	ctx := context.Background()
	var out []int
	for i := 0; i <= max; i++ {
		if !it.Next(ctx) {
			return out, true
		}
		out = append(out, it.Value())
	}
	return out, false
}

func (m *vc18m) observe() {
	vf.Assert(m.s.Len() == len(m.order), m.lab("set-len-differs-from-model"))
	for v := 0; v <= 2; v++ {
		vf.Assert(m.s.Check(v) == m.has(v), m.lab("set-check-differs-from-model"))
	}
	got, term := vc18drain(m.s.Iterator(), len(m.order)+1)
	vf.Assert(term, m.lab("set-iterator-does-not-terminate"))
	vf.Assert(len(got) == len(m.order), m.lab("set-iterator-length-differs-from-model"))
	if len(got) != len(m.order) {
		return
	}
	if m.ordered {
		for i := range got {
			vf.Assert(got[i] == m.order[i], m.lab("ordered-set-iteration-order-differs-from-model"))
		}
	} else {
		cnt := [3]int{}
		for _, g := range got {
			if g < 0 || g > 2 {
				vf.Assert(false, m.lab("set-iterator-invented-a-value"))
				return
			}
			cnt[g]++
		}
		for v := 0; v <= 2; v++ {
			w := 0
			if m.has(v) {
				w = 1
			}
			vf.Assert(cnt[v] == w, m.lab("set-iterator-multiset-differs-from-model"))
		}
	}
}

func (m *vc18m) step() { m.stepOf(vf.Choice("op", 8)) }

// stepNarrow: the single-value operations and the sorts only (used for the
// fourth step of the thorough tier, which would otherwise not complete)
func (m *vc18m) stepNarrow() { m.stepOf([]int{0, 1, 2, 3, 6, 7}[vf.Choice("op6", 6)]) }

func (m *vc18m) stepOf(op int) {
	switch op {
	case 0:
		v := vf.Range("v", 0, 2)
		m.op("Add")
		m.s.Add(v)
		m.add(v)
	case 1:
		v := vf.Range("v", 0, 2)
		m.op("AddCheck")
		got := m.s.AddCheck(v)
		vf.Assert(got == m.add(v), m.lab("addcheck-result-differs-from-model"))
	case 2:
		v := vf.Range("v", 0, 2)
		m.op("Delete")
		m.s.Delete(v)
		m.del(v)
	case 3:
		v := vf.Range("v", 0, 2)
		m.op("DeleteCheck")
		got := m.s.DeleteCheck(v)
		vf.Assert(got == m.del(v), m.lab("deletecheck-result-differs-from-model"))
	case 4:
		a, b := vf.Range("v", 0, 2), vf.Range("v", 0, 2)
		m.op("Populate")
		m.s.Populate(fun.SliceIterator([]int{a, b}))
		m.add(a)
		m.add(b)
	case 5:
		a, b := vf.Range("v", 0, 2), vf.Range("v", 0, 2)
		m.op("Extend")
		o := &Set[int]{}
		o.Order()
		o.Add(a)
		o.Add(b)
		m.s.Extend(o)
		m.add(a)
		m.add(b)
	case 6:
		rev := vf.Choice("rev", 2) == 1
		m.op("SortQuick")
		m.s.SortQuick(func(a, b int) bool { return (a < b) != rev && a != b })
		m.sort(rev)
	case 7:
		rev := vf.Choice("rev", 2) == 1
		m.op("SortMerge")
		m.s.SortMerge(func(a, b int) bool { return (a < b) != rev && a != b })
		m.sort(rev)
	}
}

func vc18new() *vc18m {
	m := &vc18m{s: &Set[int]{}}
	if vf.Choice("ordered", 2) == 1 {
		m.s.Order()
		m.ordered = true
		m.ctx = "ordered"
	} else {
		m.ctx = "unordered"
	}
	return m
}

func VC18_Ops() {
	m := vc18new()
	n := 3
	if vf.Thorough() {
		n = 4
	}
	for i := 0; i < n; i++ {
		if i == 3 {
			m.stepNarrow()
		} else {
			m.step()
		}
		m.observe()
	}
	vf.Reach("done")
}

// Equal is true exactly for sets with the same members (and order when ordered).
func VC18_Equal() {
	m := vc18new()
	for i := 0; i < 2; i++ {
		m.step()
	}
	o := &Set[int]{}
	oOrdered := vf.Choice("other-ordered", 2) == 1
	if oOrdered {
		o.Order()
	}
	members := append([]int(nil), m.order...)
	switch vf.Choice("other", 4) {
	case 0: // same members, same order
	case 1: // same members, reverse insertion order
		for i, j := 0, len(members)-1; i < j; i, j = i+1, j-1 {
			members[i], members[j] = members[j], members[i]
		}
	case 2: // one member replaced/added
		members = append(members, 3)
	case 3: // one member missing
		if len(members) > 0 {
			members = members[1:]
		}
	}
	for _, v := range members {
		o.Add(v)
	}
	want := len(members) == len(m.order) && oOrdered == m.ordered
	if want {
		for _, v := range members {
			if !m.has(v) {
				want = false
			}
		}
		if m.ordered {
			for i := range members {
				if members[i] != m.order[i] {
					want = false
				}
			}
		}
	}
	vf.Reach("equal")
	vf.Assert(m.s.Equal(o) == want, m.lab("set-equal-differs-from-model"))
}

// Synchronized set under concurrency: two goroutines x two operations each.
// The return values and the final contents must be explained by some
// interleaving of the two programs run against the reference (atomicity of
// each operation, not just freedom from data races).
type vc18op struct {
	kind int // 0 AddCheck, 1 DeleteCheck, 2 Check, 3 Len
	v    int
	ret  int // bool as 0/1, or Len
}

func vc18apply(m *vc18m, o vc18op) int {
	b := func(x bool) int {
		if x {
			return 1
		}
		return 0
	}
	switch o.kind {
	case 0:
		return b(m.add(o.v))
	case 1:
		return b(m.del(o.v))
	case 2:
		return b(m.has(o.v))
	}
	return len(m.order)
}

func VC18_Sync() {
	s := &Set[int]{}
	ordered := vf.Choice("ordered", 2) == 1
	if ordered {
		s.Order()
	}
	s.Synchronize()
	pre := vf.Choice("prefilled", 2) == 1
	if pre {
		s.Add(1)
	}
	var progs [2][]vc18op
	for g := 0; g < 2; g++ {
		n := 2
		for i := 0; i < n; i++ {
			progs[g] = append(progs[g], vc18op{kind: vf.Choice("op", 4), v: vf.Choice("val", 2)})
		}
	}
	for g := 0; g < 2; g++ {
		g := g
		vf.Go(func() {
			for i := range progs[g] {
				o := &progs[g][i]
				switch o.kind {
				case 0:
					if s.AddCheck(o.v) {
						o.ret = 1
					}
				case 1:
					if s.DeleteCheck(o.v) {
						o.ret = 1
					}
				case 2:
					if s.Check(o.v) {
						o.ret = 1
					}
				case 3:
					o.ret = s.Len()
				}
			}
		})
	}
	vf.Quiesce()
	vf.Reach("sync-quiescent")
	// final observation
	ctx := context.Background()
	var got []int
	it := s.Iterator()
	for len(got) <= 4 && it.Next(ctx) {
		got = append(got, it.Value())
	}
	_ = it.Close()
	flen := s.Len()
	explained := false
	// interleavings: masks with two bits set out of four = positions of goroutine 1's ops
	for mask := 0; mask < 16 && !explained; mask++ {
		bits := 0
		for b := 0; b < 4; b++ {
			if mask&(1<<b) != 0 {
				bits++
			}
		}
		if bits != 2 {
			continue
		}
		m := &vc18m{ordered: ordered}
		if pre {
			m.add(1)
		}
		idx := [2]int{}
		ok := true
		for b := 0; b < 4 && ok; b++ {
			g := 0
			if mask&(1<<b) != 0 {
				g = 1
			}
			o := progs[g][idx[g]]
			idx[g]++
			if vc18apply(m, o) != o.ret {
				ok = false
			}
		}
		if !ok || flen != len(m.order) || len(got) != len(m.order) {
			continue
		}
		same := true
		if ordered {
			for i := range got {
				if got[i] != m.order[i] {
					same = false
				}
			}
		} else {
			for _, x := range got {
				if !m.has(x) {
					same = false
				}
			}
			for i := range got {
				for j := i + 1; j < len(got); j++ {
					if got[i] == got[j] {
						same = false
					}
				}
			}
		}
		if same {
			explained = true
		}
	}
	vf.Assert(explained, "synchronized-set-history-not-explained-by-any-interleaving")
}
