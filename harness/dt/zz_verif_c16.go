package dt

import "context"

// C16: List against a ring model. The model of a list is the ring of handle
// indexes starting at the root sentinel; element values are symbolic.

type vc16v struct {
	ID int
	V  int
}

type vc16h struct {
	e    *Element[vc16v]
	list int // model: index of the list it is linked into, -1 = detached
	ok   bool
	val  vc16v
	root bool
}

type vc16m struct {
	lists [2]*List[vc16v]
	ring  [2][]int // handle indexes in ring order, ring[i][0] is the root handle
	h     []vc16h
	nid   int
	ctx   string
}

func (m *vc16m) newVal() vc16v {
	m.nid++
	return vc16v{ID: m.nid, V: vf.Int("val")}
}

func (m *vc16m) addHandle(e *Element[vc16v], list int, ok bool, val vc16v, root bool) int {
	m.h = append(m.h, vc16h{e, list, ok, val, root})
	return len(m.h) - 1
}

func (m *vc16m) find(e *Element[vc16v]) int {
	for i := range m.h {
		if m.h[i].e == e {
			return i
		}
	}
	return -1
}

func (m *vc16m) pos(li, hi int) int {
	for p, x := range m.ring[li] {
		if x == hi {
			return p
		}
	}
	return -1
}

func (m *vc16m) insertAfter(li, after, hi int) {
	p := m.pos(li, after)
	r := m.ring[li]
	nr := make([]int, 0, len(r)+1)
	nr = append(nr, r[:p+1]...)
	nr = append(nr, hi)
	nr = append(nr, r[p+1:]...)
	m.ring[li] = nr
	m.h[hi].list = li
}

func (m *vc16m) remove(li, hi int) {
	p := m.pos(li, hi)
	r := m.ring[li]
	nr := make([]int, 0, len(r))
	nr = append(nr, r[:p]...)
	nr = append(nr, r[p+1:]...)
	m.ring[li] = nr
	m.h[hi].list = -1
}

// seq returns the model sequence (handle indexes) of list li: the ring
// rotated so that it starts after the root.
func (m *vc16m) seq(li int) []int {
	r := m.ring[li]
	rootPos := 0
	for p, x := range r {
		if m.h[x].root {
			rootPos = p
		}
	}
	var out []int
	for i := 1; i < len(r); i++ {
		out = append(out, r[(rootPos+i)%len(r)])
	}
	return out
}

func (m *vc16m) lab(l string) string {
	if m.ctx == "" {
		return l
	}
	return l + "@" + m.ctx
}

func (m *vc16m) op(name string) {
	if m.ctx != "" {
		m.ctx += ">"
	}
	m.ctx += name
}

func (m *vc16m) sameVal(got vc16v, hi int, label string) {
	vf.Assert(got.ID == m.h[hi].val.ID, m.lab(label))
	vf.Assert(got.V == m.h[hi].val.V, m.lab(label+"-value"))
}

func (m *vc16m) observe(step string) {
	ctx := context.Background()
	for li := 0; li < 2; li++ {
		l := m.lists[li]
		want := m.seq(li)
		n := len(want)
		vf.Assert(l.Len() == n, m.lab("len-differs-from-model"))
		// forward walk
		e := l.Front()
		cnt := 0
		for ; e.Ok() && cnt <= n+1; e = e.Next() {
			if cnt < n {
				m.sameVal(e.Value(), want[cnt], "forward-walk-differs-from-model")
				vf.Assert(e == m.h[want[cnt]].e, m.lab("forward-walk-element-identity"))
			}
			cnt++
		}
		vf.Assert(cnt == n, m.lab("forward-walk-length-differs-from-model"))
		// backward walk
		e = l.Back()
		cnt = 0
		for ; e.Ok() && cnt <= n+1; e = e.Previous() {
			if cnt < n {
				m.sameVal(e.Value(), want[n-1-cnt], "backward-walk-differs-from-model")
			}
			cnt++
		}
		vf.Assert(cnt == n, m.lab("backward-walk-length-differs-from-model"))
		// Slice
		sl := l.Slice()
		vf.Assert(len(sl) == n, m.lab("slice-length-differs-from-model"))
		for i := 0; i < len(sl) && i < n; i++ {
			m.sameVal(sl[i], want[i], "slice-differs-from-model")
		}
		// iterators
		it := l.Iterator()
		cnt = 0
		for cnt <= n+1 && it.Next(ctx) {
			if cnt < n {
				m.sameVal(it.Value(), want[cnt], "iterator-differs-from-model")
			}
			cnt++
		}
		vf.Assert(cnt == n, m.lab("iterator-length-differs-from-model"))
		it = l.Reverse()
		cnt = 0
		for cnt <= n+1 && it.Next(ctx) {
			if cnt < n {
				m.sameVal(it.Value(), want[n-1-cnt], "reverse-iterator-differs-from-model")
			}
			cnt++
		}
		vf.Assert(cnt == n, m.lab("reverse-iterator-length-differs-from-model"))
	}
	for i := range m.h {
		h := &m.h[i]
		if h.e == nil {
			// documented nil-safe accessors
			vf.Assert(!h.e.Ok(), m.lab("nil-element-ok"))
			vf.Assert(!h.e.In(m.lists[0]), m.lab("nil-element-in-list"))
			continue
		}
		for li := 0; li < 2; li++ {
			vf.Assert(h.e.In(m.lists[li]) == (h.list == li), m.lab("in-list-differs-from-model"))
		}
		vf.Assert(h.e.Ok() == h.ok, m.lab("ok-differs-from-model"))
		if h.ok {
			m.sameVal(h.e.Value(), i, "handle-value-differs-from-model")
		}
	}
}

func vc16setup() *vc16m {
	m := &vc16m{}
	m.lists[0] = &List[vc16v]{}
	m.lists[1] = &List[vc16v]{}
	for li := 0; li < 2; li++ {
		root := m.lists[li].Back().Next()
		m.ring[li] = []int{m.addHandle(root, li, false, vc16v{}, true)}
	}
	na := vf.Range("lenA", 0, 3)
	for i := 0; i < na; i++ {
		m.pushBack(0)
	}
	nb := vf.Range("lenB", 0, 1)
	for i := 0; i < nb; i++ {
		m.pushBack(1)
	}
	// a fresh detached element
	v := m.newVal()
	m.addHandle(NewElement(v), -1, true, v, false)
	return m
}

func (m *vc16m) pushBack(li int) {
	v := m.newVal()
	m.lists[li].PushBack(v)
	hi := m.addHandle(m.lists[li].Back(), -1, true, v, false)
	r := m.ring[li]
	m.insertAfter(li, r[len(r)-1], hi)
	// PushBack appends before the root: find ring predecessor of root
}

func (m *vc16m) rootOf(li int) int {
	for _, x := range m.ring[li] {
		if m.h[x].root {
			return x
		}
	}
	return -1
}

func (m *vc16m) prevInRing(li, hi int) int {
	r := m.ring[li]
	p := m.pos(li, hi)
	return r[(p+len(r)-1)%len(r)]
}

func (m *vc16m) nextInRing(li, hi int) int {
	r := m.ring[li]
	p := m.pos(li, hi)
	return r[(p+1)%len(r)]
}

func (m *vc16m) pickHandle(name string) int { return vf.Choice(name, len(m.h)) }

func (m *vc16m) step() {
	op := vf.Choice("op", 11)
	switch op {
	case 0: // PushFront
		m.op("PushFront")
		li := vf.Choice("list", 2)
		v := m.newVal()
		m.lists[li].PushFront(v)
		hi := m.addHandle(m.lists[li].Front(), -1, true, v, false)
		m.insertAfter(li, m.rootOf(li), hi)
	case 1: // PushBack
		m.op("PushBack")
		li := vf.Choice("list", 2)
		v := m.newVal()
		m.lists[li].PushBack(v)
		hi := m.addHandle(m.lists[li].Back(), -1, true, v, false)
		m.insertAfter(li, m.prevInRing(li, m.rootOf(li)), hi)
	case 2, 3: // PopFront / PopBack
		li := vf.Choice("list", 2)
		var e *Element[vc16v]
		var want int
		if op == 2 {
			m.op("PopFront")
			e = m.lists[li].PopFront()
			want = m.nextInRing(li, m.rootOf(li))
		} else {
			m.op("PopBack")
			e = m.lists[li].PopBack()
			want = m.prevInRing(li, m.rootOf(li))
		}
		if m.h[want].root {
			vf.Assert(!e.Ok(), m.lab("pop-on-empty-list-returned-ok"))
			// documented: a detached non-nil element
			vf.Assert(e != nil && !e.In(m.lists[li]), m.lab("pop-on-empty-list-returned-an-attached-element"))
			if m.find(e) < 0 {
				m.addHandle(e, -1, false, vc16v{}, false)
			}
		} else {
			vf.Assert(e == m.h[want].e, m.lab("pop-returned-wrong-element"))
			m.remove(li, want)
		}
	case 4: // e.Append(f)
		ei, fi := m.pickHandle("e"), m.pickHandle("f")
		e, f := &m.h[ei], &m.h[fi]
		if e.e == nil {
			return
		}
		valid := f.e != nil && f.ok && e.list >= 0 && f.list < 0 && ei != fi
		if valid {
			m.op("Append")
		} else {
			m.op("Append[invalid]")
		}
		got := e.e.Append(f.e)
		if valid {
			vf.Assert(got == f.e, m.lab("append-valid-element-rejected"))
			m.insertAfter(e.list, ei, fi)
		} else {
			vf.Assert(got == e.e, m.lab("append-of-invalid-element-not-rejected"))
		}
	case 5, 6: // Remove / Drop
		ei := m.pickHandle("e")
		e := &m.h[ei]
		if e.e == nil {
			return
		}
		valid := e.list >= 0 && !e.root
		if op == 5 {
			m.op("Remove")
		} else {
			m.op("Drop")
		}
		if op == 5 {
			got := e.e.Remove()
			vf.Assert(got == valid, m.lab("remove-result-differs-from-model"))
		} else {
			e.e.Drop()
			if valid {
				e.ok = false
			}
		}
		if valid {
			m.remove(e.list, ei)
		}
	case 7: // Swap
		ei, fi := m.pickHandle("e"), m.pickHandle("f")
		e, f := &m.h[ei], &m.h[fi]
		if e.e == nil {
			return
		}
		valid := f.e != nil && e.list >= 0 && e.list == f.list && ei != fi
		if !valid {
			m.op("Swap[invalid]")
		} else {
			cls := "apart"
			if m.nextInRing(e.list, ei) == fi {
				cls = "with-is-next"
			} else if m.nextInRing(e.list, fi) == ei {
				cls = "with-is-prev"
			}
			if e.root {
				cls += ",receiver-root"
			} else if f.root {
				cls += ",with-root"
			}
			m.op("Swap[" + cls + "]")
		}
		got := e.e.Swap(f.e)
		vf.Assert(got == valid, m.lab("swap-result-differs-from-model"))
		if valid {
			li := e.list
			pe, pf := m.pos(li, ei), m.pos(li, fi)
			m.ring[li][pe], m.ring[li][pf] = fi, ei
		}
	case 8: // Set
		ei := m.pickHandle("e")
		e := &m.h[ei]
		v := m.newVal()
		valid := e.e != nil && !e.root
		m.op("Set")
		got := e.e.Set(v)
		vf.Assert(got == valid, m.lab("set-result-differs-from-model"))
		if valid {
			e.ok = true
			e.val = v
		}
	case 9: // Extend (other list into this one)
		li := vf.Choice("list", 2)
		src := 1 - li
		m.op("Extend")
		m.lists[li].Extend(m.lists[src])
		for _, hi := range m.seq(src) {
			m.remove(src, hi)
			m.insertAfter(li, m.prevInRing(li, m.rootOf(li)), hi)
		}
	case 10: // Copy
		li := vf.Choice("list", 2)
		m.op("Copy")
		c := m.lists[li].Copy()
		want := m.seq(li)
		vf.Assert(c.Len() == len(want), m.lab("copy-length"))
		i := 0
		for e := c.Front(); e.Ok() && i <= len(want); e = e.Next() {
			if i < len(want) {
				m.sameVal(e.Value(), want[i], "copy-differs")
				vf.Assert(e != m.h[want[i]].e, m.lab("copy-shares-elements"))
			}
			i++
		}
		vf.Assert(i == len(want), m.lab("copy-walk-length"))
	}
}

func VC16_List() {
	m := vc16setup()
	// a nil handle (only used where the documentation promises nil-safety)
	m.addHandle(nil, -1, false, vc16v{}, false)
	m.observe("initial")
	vf.Reach("built")
	steps := 1
	if vf.Thorough() {
		steps = 2
	}
	for s := 0; s < steps; s++ {
		m.step()
		m.observe("after-step")
	}
	vf.Reach("done")
}

// destructive iterators drain the list in order and leave it empty
func VC16_PopIterators() {
	m := vc16setup()
	ctx := context.Background()
	rev := vf.Choice("reverse", 2) == 1
	want := m.seq(0)
	n := len(want)
	it := m.lists[0].PopIterator()
	if rev {
		it = m.lists[0].PopReverse()
	}
	cnt := 0
	for cnt <= n+1 && it.Next(ctx) {
		if cnt < n {
			w := want[cnt]
			if rev {
				w = want[n-1-cnt]
			}
			m.sameVal(it.Value(), w, "pop-iterator-differs-from-model")
		}
		cnt++
	}
	vf.Reach("drained")
	vf.Assert(cnt == n, m.lab("pop-iterator-length"))
	for _, hi := range want {
		m.remove(0, hi)
	}
	m.observe("after-drain")
}
