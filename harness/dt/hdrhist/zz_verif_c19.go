package hdrhist

// C19 harnesses. v is an unconstrained 64-bit symbolic value assumed in
// [min,max]; shapes are concrete (chosen by a selector) and built by the real New.

type vc19shape struct {
	min, max int64
	sig      int
}

func vc19pow10(n int) int64 {
	r := int64(1)
	for i := 0; i < n; i++ {
		r *= 10
	}
	return r
}

// subBucketCount for sig figs (2^ceil(log2(2*10^sig)))
func vc19sbc(sig int) int64 {
	t := 2 * vc19pow10(sig)
	r := int64(1)
	for r < t {
		r <<= 1
	}
	return r
}

func vc19um(min int64) uint {
	um := uint(0)
	for (int64(1) << (um + 1)) <= min {
		um++
	}
	return um
}

func vc19Shapes(maxCells int64) []vc19shape {
	var out []vc19shape
	sigs := []int{1, 2, 3}
	mins := []int64{1, 2, 3, 10, 1000}
	if vf.Thorough() {
		sigs = []int{1, 2, 3, 4, 5}
		mins = []int64{1, 2, 3, 7, 10, 100, 1000, 1024}
	}
	for _, sig := range sigs {
		sbc := vc19sbc(sig)
		for _, min := range mins {
			um := vc19um(min)
			var maxes []int64
			// boundary values subBucketCount*2^k (k relative to unit magnitude) and neighbours
			ks := []uint{0, 1, 5}
			if vf.Thorough() {
				ks = []uint{0, 1, 2, 5, 13, 20}
			}
			for _, k := range ks {
				b := (sbc << um) << k
				maxes = append(maxes, b-1, b, b+1)
			}
			maxes = append(maxes, 1000000, 1<<40)
			if vf.Thorough() {
				maxes = append(maxes, 1000, 1000000000000, 1<<50, 1<<62)
			}
			for _, max := range maxes {
				if max < 2*min {
					continue
				}
				// cells = (bucketCount+1)*sbc/2
				buckets := int64(1)
				for s := sbc << um; s <= max && s > 0 && buckets < 64; s <<= 1 {
					buckets++
				}
				if maxCells > 0 && (buckets+1)*(sbc/2) > maxCells {
					continue
				}
				out = append(out, vc19shape{min, max, sig})
			}
		}
	}
	return out
}

func vc19pick(maxCells int64) (vc19shape, *Histogram) {
	shapes := vc19Shapes(maxCells)
	s := shapes[vf.Choice("shape", len(shapes))]
	vf.Notef("shape min=%d max=%d sig=%d", s.min, s.max, s.sig)
	return s, New(s.min, s.max, s.sig)
}

func vc19val(s vc19shape, name string) int64 {
	v := vf.Int64(name)
	vf.Assume(v >= s.min)
	vf.Assume(v <= s.max)
	return v
}

// Lemma 1 (public API): recording any in-range value succeeds.
func VC19_Record() {
	s, h := vc19pick(1200)
	v := vc19val(s, "v")
	vf.Reach("record")
	err := h.RecordValue(v)
	vf.Assert(err == nil, "record-in-range-rejected")
	vf.Assert(h.TotalCount() == 1, "total-count-after-one-record")
}

// Lemma 1 on every shape of the grid, through the index computation that
// RecordValues performs (same range test), without materialising the update.
func VC19_IndexInRange() {
	s, h := vc19pick(300000)
	v := vc19val(s, "v")
	vf.Reach("index")
	idx := h.countsIndexFor(v)
	vf.Assert(vf.And(idx >= 0, idx < int(h.countsLen)), "record-in-range-rejected")
}

// Lemma 2+4: equivalence range brackets v, width bound, iterator/recorder agree.
func VC19_Equiv() {
	s, h := vc19pick(300000)
	v := vc19val(s, "v")
	lo := h.lowestEquivalentValue(v)
	hi := h.highestEquivalentValue(v)
	w := h.sizeOfEquivalentValueRange(v)
	vf.Reach("equiv")
	vf.Assert(vf.And(lo <= v, v <= hi), "equivalent-range-does-not-bracket")
	vf.Assert(hi-lo+1 == w, "range-width-mismatch")
	unit := int64(1) << vc19um(s.min)
	p := vc19pow10(s.sig)
	// width <= max(2^unitMagnitude, v/10^sig)   (w*10^sig <= v, no overflow: w<=2^62/sbc)
	vf.Assert(vf.Or(w <= unit, w*p <= v), "precision-worse-than-sigfigs")
	b := h.getBucketIndex(v)
	sb := h.getSubBucketIdx(v, b)
	vf.Assert(h.valueFromIndex(b, sb) == lo, "iterator-recorder-disagree")
	vf.Assert(vf.And(sb >= 0, sb < h.subBucketCount), "sub-bucket-out-of-range")
	vf.Assert(vf.And(b >= 0, b < h.bucketCount), "bucket-out-of-range")
	// highest/lowest of the class representatives are fixed points
	vf.Assert(h.lowestEquivalentValue(lo) == lo, "lowest-not-idempotent")
}

// Lemma 3: index is monotone and constant exactly on equivalence classes
// (adjacent formulation: v and v+1).
func VC19_Mono() {
	s, h := vc19pick(300000)
	v := vc19val(s, "v")
	vf.Assume(v < s.max)
	i1 := h.countsIndexFor(v)
	i2 := h.countsIndexFor(v + 1)
	vf.Reach("mono")
	vf.Assert(i1 <= i2, "index-not-monotone")
	vf.Assert(i2 <= i1+1, "index-skips-a-cell")
	same := h.lowestEquivalentValue(v) == h.lowestEquivalentValue(v+1)
	vf.Assert(vf.Or(vf.And(i1 == i2, same), vf.And(i1 != i2, vf.Not(same))), "index-vs-equivalence-class")
}

func vc19sort(xs []int64) {
	for i := 0; i < len(xs); i++ {
		for j := 0; j+1 < len(xs)-i; j++ {
			a, b := xs[j], xs[j+1]
			sw := a > b
			xs[j] = vf.Ite64(sw, b, a)
			xs[j+1] = vf.Ite64(sw, a, b)
		}
	}
}

// Whole-histogram behaviour on small shapes (public API only).
func VC19_Walk() {
	// shapes: .k = how many distinct symbolic values are recorded at most
	type walkShape struct {
		vc19shape
		k int
	}
	shapes := []walkShape{{vc19shape{1, 30, 1}, 1}, {vc19shape{1, 32, 1}, 2}, {vc19shape{1, 100, 1}, 1}, {vc19shape{2, 64, 1}, 2}, {vc19shape{3, 200, 1}, 1},
		// shapes whose largest value lands in the very last counts cell (seed C19-3)
		{vc19shape{1, 31, 1}, 1}, {vc19shape{2, 63, 1}, 1}}
	if vf.Thorough() {
		shapes = []walkShape{{vc19shape{1, 30, 1}, 2}, {vc19shape{1, 32, 1}, 2}, {vc19shape{1, 100, 1}, 2}, {vc19shape{2, 64, 1}, 2}, {vc19shape{3, 200, 1}, 2},
			{vc19shape{1, 1000, 1}, 1}, {vc19shape{10, 2000, 1}, 1}, {vc19shape{1, 255, 2}, 1}, {vc19shape{1, 31, 1}, 3}, {vc19shape{2, 63, 1}, 1}}
	}
	ws := shapes[vf.Choice("shape", len(shapes))]
	s := ws.vc19shape
	vf.Notef("shape min=%d max=%d sig=%d", s.min, s.max, s.sig)
	h := New(s.min, s.max, s.sig)
	k := vf.Range("k", 1, ws.k)
	var all []int64
	for i := 0; i < k; i++ {
		v := vc19val(s, "v")
		m := 1
		if i == 0 && k < 3 {
			m = vf.Range("mult", 1, 2)
		}
		if err := h.RecordValues(v, int64(m)); err != nil {
			vf.Assert(false, "record-in-range-rejected")
			return
		}
		for j := 0; j < m; j++ {
			all = append(all, v)
		}
	}
	n := len(all)
	vf.Reach("recorded")
	vf.Assert(h.TotalCount() == int64(n), "total-count")
	vc19sort(all)
	unit := int64(1) << vc19um(s.min)
	p := vc19pow10(s.sig)
	within := func(got, exact int64) bool {
		d := got - exact
		return vf.And(exact <= got, vf.Or(d < unit, d*p <= exact))
	}
	what := vf.Choice("what", 4)
	switch what {
	case 0:
		r := vf.Range("rank", 1, n)
		q := 100 * float64(r) / float64(n)
		got := h.ValueAtQuantile(q)
		vf.Reach("quantile")
		vf.Assert(within(got, all[r-1]), "quantile-outside-precision")
	case 1:
		got := h.ValueAtQuantile(100)
		vf.Assert(within(got, all[n-1]), "q100-outside-precision")
		got = h.ValueAtQuantile(250)
		vf.Assert(within(got, all[n-1]), "q>100-outside-precision")
	case 2:
		mx := h.Max()
		mn := h.Min()
		vf.Reach("minmax")
		vf.Assert(within(mx, all[n-1]), "max-outside-precision")
		// Min reports the lowest equivalent value of the smallest recording
		dmin := all[0] - mn
		vf.Assert(vf.And(mn <= all[0], vf.Or(dmin < unit, dmin*p <= all[0])), "min-outside-precision")
	case 3:
		h2 := Import(h.Export())
		vf.Reach("roundtrip")
		vf.Assert(h2.Equals(h), "export-import-not-equal")
		vf.Assert(h2.TotalCount() == h.TotalCount(), "export-import-total")
		h3 := New(s.min, s.max, s.sig)
		dropped := h3.Merge(h)
		vf.Assert(dropped == 0, "merge-dropped")
		vf.Assert(h3.Equals(h), "merge-not-equal")
	}
}

// A histogram obtained by Export/Import or Merge is a separate histogram:
// later calls on one do not change what the other reports (and cannot trip
// its invariant panics). One symbolic recorded value, small shapes.
func VC19_Alias() {
	shapes := []vc19shape{{1, 30, 1}, {2, 64, 1}}
	if vf.Thorough() {
		shapes = []vc19shape{{1, 30, 1}, {2, 64, 1}, {1, 100, 1}, {3, 200, 1}, {1, 255, 2}}
	}
	s := shapes[vf.Choice("shape", len(shapes))]
	vf.Notef("shape min=%d max=%d sig=%d", s.min, s.max, s.sig)
	h := New(s.min, s.max, s.sig)
	v := vc19val(s, "v")
	m := vf.Range("mult", 1, 2)
	if err := h.RecordValues(v, int64(m)); err != nil {
		vf.Assert(false, "record-in-range-rejected")
		return
	}
	unit := int64(1) << vc19um(s.min)
	p := vc19pow10(s.sig)
	within := func(got, exact int64) bool {
		d := got - exact
		return vf.And(exact <= got, vf.Or(d < unit, d*p <= exact))
	}
	var other, untouched *Histogram
	mode := vf.Choice("mutate", 5)
	w := s.max // the later recording is concrete: aliasing does not depend on its value
	switch mode {
	case 0:
		other, untouched = h, Import(h.Export())
		other.Reset()
	case 1:
		other, untouched = h, Import(h.Export())
		_ = other.RecordValues(w, 2)
	case 2:
		other, untouched = Import(h.Export()), h
		_ = other.RecordValues(w, 2)
	case 3:
		other, untouched = New(s.min, s.max, s.sig), h
		_ = other.Merge(h)
		_ = other.RecordValues(w, 2)
	case 4:
		other, untouched = Import(h.Export()), h
		other.Reset()
	}
	vf.Reach("independent")
	vf.Assert(untouched.TotalCount() == int64(m), "copy-changed-by-calls-on-the-other-histogram:total")
	vf.Assert(within(untouched.Max(), v), "copy-changed-by-calls-on-the-other-histogram:max")
	mn := untouched.Min()
	dmin := v - mn
	vf.Assert(vf.And(mn <= v, vf.Or(dmin < unit, dmin*p <= v)), "copy-changed-by-calls-on-the-other-histogram:min")
	vf.Assert(within(untouched.ValueAtQuantile(100), v), "copy-changed-by-calls-on-the-other-histogram:q100")
}
