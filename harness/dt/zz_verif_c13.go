package dt

import (
	"context"
	"sync"
)

func VC13_Set() {
	s := &Set[int]{}
	if vf.Choice("ordered", 2) == 1 {
		s.Order()
	}
	s.Synchronize()
	if vf.Choice("prefilled", 2) == 1 {
		s.Add(1)
		s.Add(2)
	}
	other := &Set[int]{}
	other.Add(5)
	ctx := context.Background()
	ops := []func(){
		func() { s.Add(3) },
		func() { _ = s.AddCheck(1) },
		func() { s.Delete(1) },
		func() { _ = s.DeleteCheck(2) },
		func() { _ = s.Check(1) },
		func() { _ = s.Len() },
		func() {
			it := s.Iterator()
			for i := 0; i < 4 && it.Next(ctx); i++ {
				_ = it.Value()
			}
			_ = it.Close()
		},
		func() { s.Extend(other) },
		func() { _ = s.Equal(other) },
		func() { s.SortQuick(func(a, b int) bool { return a < b }) },
		// documented as safe to call more than once: the set keeps its mutex
		func() { s.Synchronize(); s.Add(4) },
		func() {
			defer func() { _ = recover() }() // refused (different mutex): panics by design
			s.WithLock(&sync.Mutex{})
		},
	}
	a := vf.Choice("a", len(ops))
	b := vf.Choice("b", len(ops))
	if b < a {
		vf.Assume(false)
	}
	vf.Go(ops[a])
	vf.Go(ops[b])
	vf.Quiesce()
	vf.Reach("set-pairs")
}
