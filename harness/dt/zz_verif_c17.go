package dt

import "github.com/tychoish/fun/dt/cmp"

// C17: sorting, IsSorted, Heap. Keys are unconstrained symbolic int64; ids
// are concrete so permutation/stability questions are concrete per path
// while every ordering question is a solver query.

type vc17e struct {
	Key int64
	ID  int
}

func vc17lt(sel int) cmp.LessThan[vc17e] {
	native := func(a, b vc17e) bool { return a.Key < b.Key }
	switch sel {
	case 0:
		return native
	case 1:
		// reversed strict order
		return func(a, b vc17e) bool { return a.Key > b.Key }
	default:
		// key-projected (forces ties between different keys)
		return cmp.LessThanConverter(func(e vc17e) int64 { return e.Key >> 1 })
	}
}

func vc17n() int {
	if vf.Thorough() {
		return 6
	}
	return 5
}

func vc17build(n int) (*List[vc17e], []vc17e) {
	l := &List[vc17e]{}
	var in []vc17e
	for i := 0; i < n; i++ {
		e := vc17e{Key: vf.Int64("key"), ID: i}
		in = append(in, e)
		l.PushBack(e)
	}
	return l, in
}

// walk returns the forward traversal (step-capped) and whether it terminated.
func vc17fwd(l *List[vc17e], cap int) ([]vc17e, bool) {
	var out []vc17e
	e := l.Front()
	for i := 0; i <= cap; i++ {
		if !e.Ok() {
			return out, true
		}
		out = append(out, e.Value())
		e = e.Next()
	}
	return out, false
}

func vc17bwd(l *List[vc17e], cap int) ([]vc17e, bool) {
	var out []vc17e
	e := l.Back()
	for i := 0; i <= cap; i++ {
		if !e.Ok() {
			return out, true
		}
		out = append(out, e.Value())
		e = e.Previous()
	}
	return out, false
}

func vc17checkSorted(l *List[vc17e], in []vc17e, lt cmp.LessThan[vc17e], stable bool) {
	n := len(in)
	out, term := vc17fwd(l, n+2)
	vf.Assert(term, "forward-walk-does-not-terminate")
	vf.Assert(len(out) == n, "sort-changed-length")
	if len(out) != n {
		return
	}
	seen := make([]bool, n)
	for _, e := range out {
		if e.ID < 0 || e.ID >= n || seen[e.ID] {
			vf.Assert(false, "sort-not-a-permutation")
			return
		}
		seen[e.ID] = true
		vf.Assert(e.Key == in[e.ID].Key, "sort-altered-a-value")
	}
	for i := 0; i+1 < n; i++ {
		vf.Assert(vf.Not(lt(out[i+1], out[i])), "sorted-output-out-of-order")
		if stable {
			// equal under lt => previous relative order (ids ascending)
			eq := vf.Not(lt(out[i], out[i+1]))
			vf.Assert(vf.Implies(eq, out[i].ID < out[i+1].ID), "sortquick-not-stable")
		}
	}
	vf.Assert(l.Len() == n, "len-after-sort")
	// the list remains usable
	back, termb := vc17bwd(l, n+2)
	vf.Assert(termb, "backward-walk-does-not-terminate")
	vf.Assert(len(back) == n, "backward-walk-length-after-sort")
	for i := 0; i < n && len(back) == n; i++ {
		vf.Assert(back[n-1-i].ID == out[i].ID, "backward-walk-differs-after-sort")
	}
	for e := l.Front(); e.Ok(); e = e.Next() {
		vf.Assert(e.In(l), "element-not-in-list-after-sort")
	}
	if n > 0 {
		f := l.PopFront()
		vf.Assert(f.Ok(), "popfront-fails-after-sort")
		if f.Ok() {
			vf.Assert(f.Value().ID == out[0].ID, "popfront-wrong-element-after-sort")
		}
		vf.Assert(l.Len() == n-1, "len-after-popfront-after-sort")
		l.PushBack(vc17e{Key: 0, ID: 99})
		vf.Assert(l.Len() == n, "len-after-pushback-after-sort")
		vf.Assert(l.Back().Value().ID == 99, "pushback-after-sort")
		b := l.PopBack()
		vf.Assert(vf.And(b.Ok(), b.Value().ID == 99), "popback-after-sort")
	}
	// insertions next to the sentinel, on the sorted list and after draining it
	l.PushFront(vc17e{Key: 0, ID: 98})
	vf.Assert(l.Front().Value().ID == 98, "pushfront-after-sort")
	vf.Assert(l.Front().In(l), "pushed-element-not-in-list-after-sort")
	m := l.Len()
	drained := 0
	for e := l.PopFront(); e.Ok() && drained <= n+2; e = l.PopFront() {
		drained++
	}
	vf.Assert(drained == m, "drain-after-sort-differs-from-len")
	vf.Assert(l.Len() == 0, "len-after-drain-after-sort")
	l.PushBack(vc17e{Key: 0, ID: 97})
	l.PushFront(vc17e{Key: 0, ID: 96})
	vf.Assert(l.Len() == 2, "len-after-refill-after-sort")
	vf.Assert(vf.And(l.Front().In(l), l.Back().In(l)), "refilled-element-not-in-list-after-sort")
	rf, rterm := vc17fwd(l, 4)
	vf.Assert(rterm && len(rf) == 2 && rf[0].ID == 96 && rf[1].ID == 97, "walk-after-refill-after-sort")
	p2 := l.PopBack()
	vf.Assert(p2.Ok() && p2.Value().ID == 97, "popback-after-refill-after-sort")
}

func VC17_SortMerge() {
	n := vf.Range("n", 0, vc17n())
	lt := vc17lt(vf.Choice("cmp", 3))
	l, in := vc17build(n)
	l.SortMerge(lt)
	vf.Reach("sorted")
	vc17checkSorted(l, in, lt, false)
}

func VC17_SortQuick() {
	n := vf.Range("n", 0, vc17n())
	lt := vc17lt(vf.Choice("cmp", 3))
	l, in := vc17build(n)
	l.SortQuick(lt)
	vf.Reach("sorted")
	vc17checkSorted(l, in, lt, true)
}

func VC17_IsSorted() {
	n := vf.Range("n", 0, vc17n())
	lt := vc17lt(vf.Choice("cmp", 3))
	l, in := vc17build(n)
	got := l.IsSorted(lt)
	want := true
	for i := 0; i+1 < n; i++ {
		want = vf.And(want, vf.Not(lt(in[i+1], in[i])))
	}
	vf.Reach("checked")
	vf.Assert(vf.Or(vf.And(got, want), vf.And(vf.Not(got), vf.Not(want))), "issorted-disagrees-with-order")
}

func VC17_Heap() {
	n := vf.Range("n", 0, vc17n())
	lt := vc17lt(vf.Choice("cmp", 3))
	h := &Heap[vc17e]{LT: lt}
	var in []vc17e
	for i := 0; i < n; i++ {
		e := vc17e{Key: vf.Int64("key"), ID: i}
		in = append(in, e)
		h.Push(e)
	}
	vf.Assert(h.Len() == n, "heap-len")
	seen := make([]bool, n)
	var prev vc17e
	for i := 0; i < n; i++ {
		e, ok := h.Pop()
		vf.Assert(ok, "heap-pop-not-ok")
		if !ok {
			return
		}
		if e.ID < 0 || e.ID >= n || seen[e.ID] {
			vf.Assert(false, "heap-pop-not-a-permutation")
			return
		}
		seen[e.ID] = true
		vf.Assert(e.Key == in[e.ID].Key, "heap-altered-a-value")
		if i > 0 {
			vf.Assert(vf.Not(lt(e, prev)), "heap-pop-out-of-order")
		}
		prev = e
	}
	vf.Reach("drained")
	_, ok := h.Pop()
	vf.Assert(!ok, "heap-pop-after-empty-ok")
	vf.Assert(h.Len() == 0, "heap-len-after-drain")
}
