package dt

import "context"

// C16 (Stack): LIFO model, top first.

type vc16sm struct {
	s     *Stack[vc16v]
	model []int // handle indexes, top first
	h     []vc16sh
	nid   int
	ctx   string
}

type vc16sh struct {
	it  *Item[vc16v]
	in  bool
	ok  bool
	val vc16v
}

func (m *vc16sm) lab(l string) string {
	if m.ctx == "" {
		return l
	}
	return l + "@" + m.ctx
}

func (m *vc16sm) op(n string) {
	if m.ctx != "" {
		m.ctx += ">"
	}
	m.ctx += n
}

func (m *vc16sm) newVal() vc16v {
	m.nid++
	return vc16v{ID: m.nid, V: vf.Int("val")}
}

func (m *vc16sm) push() {
	v := m.newVal()
	m.s.Push(v)
	m.h = append(m.h, vc16sh{m.s.Head(), true, true, v})
	m.model = append([]int{len(m.h) - 1}, m.model...)
}

func (m *vc16sm) sameVal(got vc16v, hi int, label string) {
	vf.Assert(got.ID == m.h[hi].val.ID, m.lab(label))
	vf.Assert(got.V == m.h[hi].val.V, m.lab(label+"-value"))
}

func (m *vc16sm) observe() {
	ctx := context.Background()
	n := len(m.model)
	vf.Assert(m.s.Len() == n, m.lab("stack-len-differs-from-model"))
	cnt := 0
	for it := m.s.Head(); it.Ok() && cnt <= n+1; it = it.Next() {
		if cnt < n {
			m.sameVal(it.Value(), m.model[cnt], "stack-walk-differs-from-model")
			vf.Assert(it == m.h[m.model[cnt]].it, m.lab("stack-walk-item-identity"))
		}
		cnt++
	}
	vf.Assert(cnt == n, m.lab("stack-walk-length-differs-from-model"))
	iter := m.s.Iterator()
	cnt = 0
	for cnt <= n+1 && iter.Next(ctx) {
		if cnt < n {
			m.sameVal(iter.Value(), m.model[cnt], "stack-iterator-differs-from-model")
		}
		cnt++
	}
	vf.Assert(cnt == n, m.lab("stack-iterator-length-differs-from-model"))
	for i := range m.h {
		h := &m.h[i]
		vf.Assert(h.it.In(m.s) == h.in, m.lab("stack-in-differs-from-model"))
		vf.Assert(h.it.Ok() == h.ok, m.lab("stack-ok-differs-from-model"))
		if h.ok {
			m.sameVal(h.it.Value(), i, "stack-handle-value-differs-from-model")
		}
	}
}

func (m *vc16sm) drop(hi int) {
	var nm []int
	for _, x := range m.model {
		if x != hi {
			nm = append(nm, x)
		}
	}
	m.model = nm
	m.h[hi].in = false
}

func (m *vc16sm) step() {
	switch vf.Choice("op", 3) {
	case 0:
		m.op("Push")
		m.push()
	case 1:
		m.op("Pop")
		it := m.s.Pop()
		if len(m.model) == 0 {
			vf.Assert(!it.Ok(), m.lab("pop-on-empty-stack-returned-ok"))
		} else {
			top := m.model[0]
			vf.Assert(it == m.h[top].it, m.lab("pop-returned-wrong-item"))
			m.drop(top)
		}
	case 2:
		if len(m.h) == 0 {
			return
		}
		hi := vf.Choice("item", len(m.h))
		h := &m.h[hi]
		valid := h.in && h.ok
		pos := "detached"
		for p, x := range m.model {
			if x == hi {
				pos = "middle"
				if p == 0 {
					pos = "top"
				} else if p == len(m.model)-1 {
					pos = "bottom"
				}
			}
		}
		m.op("Remove[" + pos + "]")
		got := h.it.Remove()
		vf.Assert(got == valid, m.lab("item-remove-result-differs-from-model"))
		if valid {
			m.drop(hi)
		}
	}
}

func VC16_Stack() {
	m := &vc16sm{s: &Stack[vc16v]{}}
	n := vf.Range("len", 0, 3)
	for i := 0; i < n; i++ {
		m.push()
	}
	m.observe()
	vf.Reach("built")
	steps := 2
	if vf.Thorough() {
		steps = 3
	}
	for i := 0; i < steps; i++ {
		m.step()
		m.observe()
	}
	vf.Reach("done")
}

func VC16_StackPopIterator() {
	m := &vc16sm{s: &Stack[vc16v]{}}
	n := vf.Range("len", 0, 3)
	for i := 0; i < n; i++ {
		m.push()
	}
	ctx := context.Background()
	it := m.s.PopIterator()
	cnt := 0
	for cnt <= n+1 && it.Next(ctx) {
		if cnt < n {
			m.sameVal(it.Value(), m.model[cnt], "stack-pop-iterator-differs-from-model")
		}
		cnt++
	}
	vf.Reach("drained")
	vf.Assert(cnt == n, "stack-pop-iterator-length")
	for _, hi := range append([]int(nil), m.model...) {
		m.drop(hi)
	}
	m.observe()
}
