package pubsub

import "context"

// C07: no missed wake-up. Scenarios of a few client goroutines; the oracle is
// evaluated at quiescence (no goroutine can make a step).

type vc07item struct {
	ID int
	V  int
}

// Queue: nW waiters, nA adders on an unlimited queue.
func VC07_QueueWaiters() {
	q := NewUnlimitedQueue[vc07item]()
	nW := vf.Range("waiters", 1, 2)
	nA := vf.Range("adds", 0, 2)
	ctx := context.Background()
	done := make([]bool, nW)
	got := make([]vc07item, nW)
	for i := 0; i < nW; i++ {
		i := i
		vf.Go(func() {
			it, err := q.Wait(ctx)
			vf.Assert(err == nil, "wait-returned-error-on-open-queue")
			got[i] = it
			done[i] = true
		})
	}
	items := make([]vc07item, nA)
	for j := 0; j < nA; j++ {
		j := j
		items[j] = vc07item{ID: j + 1, V: vf.Int("item")}
		vf.Go(func() { vf.Assert(q.Add(items[j]) == nil, "add-failed-on-unlimited-queue") })
	}
	vf.Quiesce()
	vf.Reach("quiescent")
	served := 0
	for i := range done {
		if done[i] {
			served++
			id := got[i].ID
			ok := id >= 1 && id <= nA
			vf.Assert(ok, "waiter-received-an-item-that-was-not-added")
			if ok {
				vf.Assert(got[i].V == items[id-1].V, "waiter-received-an-altered-item")
			}
		}
	}
	want := nW
	if nA < want {
		want = nA
	}
	vf.Assert(served == want, "consumer-parked-while-queue-non-empty")
	vf.Assert(q.Len() == nA-served, "len-after-quiescence")
}

func vc07bounded(c int) *Queue[vc07item] {
	q, err := NewQueue[vc07item](QueueOptions{HardLimit: c, SoftQuota: c})
	vf.Assert(err == nil, "newqueue-rejected-valid-options")
	return q
}

// Queue: producers blocked on a full bounded queue, removers free capacity.
func VC07_QueueBlockingAdd() {
	c := vf.Range("cap", 1, 2)
	q := vc07bounded(c)
	for i := 0; i < c; i++ {
		vf.Assert(q.Add(vc07item{ID: 100 + i}) == nil, "prefill")
	}
	nP := vf.Range("producers", 1, 2)
	nR := vf.Range("removers", 0, 2)
	ctx := context.Background()
	added := make([]bool, nP)
	for i := 0; i < nP; i++ {
		i := i
		vf.Go(func() {
			err := q.BlockingAdd(ctx, vc07item{ID: i + 1, V: vf.Int("item")})
			vf.Assert(err == nil, "blockingadd-error-on-open-queue")
			added[i] = true
		})
	}
	removed := make([]bool, nR)
	for i := 0; i < nR; i++ {
		i := i
		vf.Go(func() { _, removed[i] = q.Remove() })
	}
	vf.Quiesce()
	vf.Reach("quiescent")
	nAdded, nRemoved := 0, 0
	for _, a := range added {
		if a {
			nAdded++
		}
	}
	for _, r := range removed {
		if r {
			nRemoved++
		}
	}
	l := q.Len()
	vf.Assert(l == c+nAdded-nRemoved, "len-after-quiescence")
	vf.Assert(l <= c, "len-exceeds-capacity")
	// NewQueue always uses the burst-credit tracker, whose capacity for
	// BlockingAdd is the current soft quota (>= 1, adjusted dynamically and not
	// observable through the API): the clause is asserted for the case that
	// is free under every soft quota - the empty queue.
	vf.Assert(nAdded == nP || l >= 1, "producer-parked-while-queue-empty")
}

// Close wakes every blocked operation.
func VC07_QueueClose() {
	kind := vf.Choice("blocked-op", 3)
	ctx := context.Background()
	var q *Queue[vc07item]
	returned := false
	var err error
	switch kind {
	case 0: // Wait on empty queue
		q = NewUnlimitedQueue[vc07item]()
		vf.Go(func() { _, err = q.Wait(ctx); returned = true })
	case 1: // BlockingAdd on full queue
		q = vc07bounded(1)
		_ = q.Add(vc07item{ID: 100})
		vf.Go(func() { err = q.BlockingAdd(ctx, vc07item{ID: 1}); returned = true })
	case 2: // Distributor.Receive on empty queue
		q = NewUnlimitedQueue[vc07item]()
		d := q.Distributor()
		vf.Go(func() { _, err = d.Receive(ctx); returned = true })
	}
	vf.Go(func() { _ = q.Close() })
	vf.Quiesce()
	vf.Reach("quiescent")
	vf.Assert(returned, "blocked-operation-not-woken-by-close")
	if returned {
		vf.Assert(err != nil, "blocked-operation-succeeded-on-closed-container")
	}
}

// Cancellation of its context wakes a blocked operation.
func VC07_QueueCancel() {
	kind := vf.Choice("blocked-op", 3)
	ctx, cancel := context.WithCancel(context.Background())
	var q *Queue[vc07item]
	returned := false
	var err error
	switch kind {
	case 0:
		q = NewUnlimitedQueue[vc07item]()
		vf.Go(func() { _, err = q.Wait(ctx); returned = true })
	case 1:
		q = vc07bounded(1)
		_ = q.Add(vc07item{ID: 100})
		vf.Go(func() { err = q.BlockingAdd(ctx, vc07item{ID: 1}); returned = true })
	case 2:
		q = NewUnlimitedQueue[vc07item]()
		d := q.Distributor()
		vf.Go(func() { _, err = d.Receive(ctx); returned = true })
	}
	vf.Go(func() { cancel() })
	vf.Quiesce()
	vf.Reach("quiescent")
	vf.Assert(returned, "blocked-operation-not-woken-by-cancellation")
	if returned {
		vf.Assert(err != nil, "cancelled-operation-reported-success")
	}
	vf.Assert(vf.Live() == 0, "helper-goroutine-left-behind")
}

// A call made while its condition already holds returns without help.
func VC07_Immediate() {
	ctx := context.Background()
	switch vf.Choice("case", 6) {
	case 0:
		q := NewUnlimitedQueue[vc07item]()
		_ = q.Add(vc07item{ID: 1})
		it, err := q.Wait(ctx)
		vf.Assert(err == nil && it.ID == 1, "queue-wait-on-non-empty")
	case 1:
		q := vc07bounded(2)
		_ = q.Add(vc07item{ID: 1})
		vf.Assert(q.BlockingAdd(ctx, vc07item{ID: 2}) == nil, "queue-blockingadd-with-capacity")
	case 2:
		dq := NewUnlimitedDeque[vc07item]()
		_ = dq.PushBack(vc07item{ID: 1})
		it, err := dq.WaitFront(ctx)
		vf.Assert(err == nil && it.ID == 1, "deque-waitfront-on-non-empty")
	case 3:
		dq := NewUnlimitedDeque[vc07item]()
		_ = dq.PushBack(vc07item{ID: 1})
		_ = dq.PushBack(vc07item{ID: 2})
		it, err := dq.WaitBack(ctx)
		vf.Assert(err == nil && it.ID == 2, "deque-waitback-on-non-empty")
	case 4:
		dq, _ := NewDeque[vc07item](DequeOptions{Capacity: 2})
		_ = dq.PushBack(vc07item{ID: 1})
		vf.Assert(dq.WaitPushBack(ctx, vc07item{ID: 2}) == nil, "deque-waitpushback-with-capacity")
		vf.Assert(dq.Len() == 2, "deque-len")
	case 5:
		dq, _ := NewDeque[vc07item](DequeOptions{Capacity: 2})
		_ = dq.PushBack(vc07item{ID: 1})
		vf.Assert(dq.WaitPushFront(ctx, vc07item{ID: 2}) == nil, "deque-waitpushfront-with-capacity")
		it, ok := dq.PopFront()
		vf.Assert(ok && it.ID == 2, "deque-front-after-waitpushfront")
	}
	vf.Reach("returned")
	vf.Quiesce()
	vf.Assert(vf.Live() == 0, "helper-goroutine-left-behind")
}

func vc07deque(capacity int) *Deque[vc07item] {
	if capacity == 0 {
		return NewUnlimitedDeque[vc07item]()
	}
	dq, err := NewDeque[vc07item](DequeOptions{Capacity: capacity})
	vf.Assert(err == nil, "newdeque-rejected-valid-options")
	return dq
}

// Deque consumers: nW waiters (front or back), nP pushers (front or back),
// optionally a pre-filled element.
func VC07_DequeWaitPop() {
	dq := vc07deque(0)
	pre := vf.Range("prefilled", 0, 1)
	for i := 0; i < pre; i++ {
		_ = dq.PushBack(vc07item{ID: 100 + i})
	}
	nW := vf.Range("waiters", 1, 2)
	nP := vf.Range("pushes", 0, 2)
	ctx := context.Background()
	done := make([]bool, nW)
	back := vf.Choice("wait-back", 2) == 1
	front := vf.Choice("push-front", 2) == 1
	for i := 0; i < nW; i++ {
		i := i
		vf.Go(func() {
			var err error
			if back {
				_, err = dq.WaitBack(ctx)
			} else {
				_, err = dq.WaitFront(ctx)
			}
			vf.Assert(err == nil, "deque-wait-returned-error-on-open-deque")
			done[i] = true
		})
	}
	for j := 0; j < nP; j++ {
		j := j
		vf.Go(func() {
			var err error
			if front {
				err = dq.PushFront(vc07item{ID: j + 1, V: vf.Int("item")})
			} else {
				err = dq.PushBack(vc07item{ID: j + 1, V: vf.Int("item")})
			}
			vf.Assert(err == nil, "push-failed-on-unlimited-deque")
		})
	}
	vf.Quiesce()
	vf.Reach("quiescent")
	served := 0
	for _, d := range done {
		if d {
			served++
		}
	}
	want := nW
	if pre+nP < want {
		want = pre + nP
	}
	vf.Assert(served == want, "consumer-parked-while-deque-non-empty")
	vf.Assert(dq.Len() == pre+nP-served, "deque-len-after-quiescence")
}

// Deque producers blocked on a full fixed-capacity deque, poppers free capacity.
func VC07_DequeWaitPush() {
	c := vf.Range("cap", 1, 2)
	dq := vc07deque(c)
	for i := 0; i < c; i++ {
		vf.Assert(dq.PushBack(vc07item{ID: 100 + i}) == nil, "prefill")
	}
	nP := vf.Range("producers", 1, 2)
	nR := vf.Range("poppers", 0, 2)
	ctx := context.Background()
	added := make([]bool, nP)
	for i := 0; i < nP; i++ {
		i := i
		front := vf.Choice("push-front", 2) == 1
		vf.Go(func() {
			var err error
			if front {
				err = dq.WaitPushFront(ctx, vc07item{ID: i + 1})
			} else {
				err = dq.WaitPushBack(ctx, vc07item{ID: i + 1})
			}
			vf.Assert(err == nil, "waitpush-error-on-open-deque")
			added[i] = true
		})
	}
	popped := make([]bool, nR)
	for i := 0; i < nR; i++ {
		i := i
		back := vf.Choice("pop-back", 2) == 1
		vf.Go(func() {
			if back {
				_, popped[i] = dq.PopBack()
			} else {
				_, popped[i] = dq.PopFront()
			}
		})
	}
	vf.Quiesce()
	vf.Reach("quiescent")
	nAdded, nPopped := 0, 0
	for _, a := range added {
		if a {
			nAdded++
		}
	}
	for _, r := range popped {
		if r {
			nPopped++
		}
	}
	l := dq.Len()
	vf.Assert(l == c+nAdded-nPopped, "deque-len-after-quiescence")
	vf.Assert(l <= c, "deque-len-exceeds-capacity")
	vf.Assert(nAdded == nP || l == c, "producer-parked-while-capacity-free")
}

func VC07_DequeCloseCancel() {
	kind := vf.Choice("blocked-op", 3)
	byCancel := vf.Choice("by-cancel", 2) == 1
	ctx, cancel := context.WithCancel(context.Background())
	var dq *Deque[vc07item]
	returned := false
	var err error
	switch kind {
	case 0:
		dq = vc07deque(0)
		vf.Go(func() { _, err = dq.WaitFront(ctx); returned = true })
	case 1:
		dq = vc07deque(0)
		vf.Go(func() { _, err = dq.WaitBack(ctx); returned = true })
	case 2:
		dq = vc07deque(1)
		_ = dq.PushBack(vc07item{ID: 100})
		vf.Go(func() { err = dq.WaitPushBack(ctx, vc07item{ID: 1}); returned = true })
	}
	if byCancel {
		vf.Go(func() { cancel() })
	} else {
		vf.Go(func() { _ = dq.Close() })
	}
	vf.Quiesce()
	vf.Reach("quiescent")
	if byCancel {
		vf.Assert(returned, "blocked-deque-operation-not-woken-by-cancellation")
	} else {
		vf.Assert(returned, "blocked-deque-operation-not-woken-by-close")
	}
	if returned {
		vf.Assert(err != nil, "blocked-deque-operation-reported-success")
	}
	cancel()
	vf.Quiesce()
	vf.Assert(vf.Live() == 0, "helper-goroutine-left-behind")
}

// Several operations parked on the same queue with different contexts:
// cancelling one of them releases that one, whoever parked first.
func VC07_QueueCancelMulti() {
	kind := vf.Choice("parked", 3)
	which := vf.Choice("cancel-which", 2)
	var ctxs [2]context.Context
	var cancels [2]context.CancelFunc
	for i := 0; i < 2; i++ {
		ctxs[i], cancels[i] = context.WithCancel(context.Background())
	}
	var q *Queue[vc07item]
	returned := make([]bool, 2)
	errs := make([]error, 2)
	switch kind {
	case 0: // two producers blocked on a full queue
		q = vc07bounded(1)
		_ = q.Add(vc07item{ID: 100})
		for i := 0; i < 2; i++ {
			i := i
			vf.Go(func() { errs[i] = q.BlockingAdd(ctxs[i], vc07item{ID: i + 1}); returned[i] = true })
		}
	case 1: // two consumers blocked on an empty queue
		q = NewUnlimitedQueue[vc07item]()
		for i := 0; i < 2; i++ {
			i := i
			vf.Go(func() { _, errs[i] = q.Wait(ctxs[i]); returned[i] = true })
		}
	case 2: // an iterator waiting at the end and a blocked producer
		q = vc07bounded(1)
		_ = q.Add(vc07item{ID: 100})
		vf.Go(func() {
			it := q.Iterator()
			for it.Next(ctxs[0]) {
			}
			errs[0] = ctxs[0].Err()
			returned[0] = true
		})
		vf.Go(func() { errs[1] = q.BlockingAdd(ctxs[1], vc07item{ID: 2}); returned[1] = true })
	}
	vf.Go(func() { cancels[which]() })
	vf.Quiesce()
	vf.Reach("quiescent")
	vf.Assert(returned[which], "blocked-operation-not-woken-by-cancellation")
	if returned[which] {
		vf.Assert(errs[which] != nil, "cancelled-operation-reported-success")
	}
	vf.Assert(!returned[1-which], "operation-returned-although-nothing-happened-to-it")
	cancels[1-which]()
	vf.Quiesce()
	vf.Assert(returned[1-which], "blocked-operation-not-woken-by-cancellation")
	vf.Assert(vf.Live() == 0, "helper-goroutine-left-behind")
}
