package pubsub

import "context"

// C08 / C09: broker scenarios (the deepest stack: event loop, dispatch
// workers, one map-iterator goroutine per dispatch, plus the clients).

type vc08sub struct {
	ch       chan vc05item
	got      []vc05item
	subAfter int // number of publishes that had returned when Subscribe returned
}

func vc08broker(ctx context.Context, backend int, opts BrokerOptions) *Broker[vc05item] {
	switch backend {
	case 1:
		return NewQueueBroker[vc05item](ctx, NewUnlimitedQueue[vc05item](), opts)
	case 2:
		return NewDequeBroker[vc05item](ctx, NewUnlimitedDeque[vc05item](), opts)
	}
	return NewBroker[vc05item](ctx, opts)
}

// Lossless configurations: every message published after Subscribe returned
// reaches the subscriber exactly once, in publish order (one dispatch worker).
func VC08_Lossless() {
	backend := vf.Choice("backend", 3)
	parallel := vf.Choice("parallel-dispatch", 2) == 1
	nsub := vf.Range("subscribers", 1, 2)
	nmsg := vf.Range("messages", 1, 2)
	ctx, cancel := context.WithCancel(context.Background())
	defer cancel()
	b := vc08broker(ctx, backend, BrokerOptions{ParallelDispatch: parallel, WorkerPoolSize: 1})
	subs := make([]*vc08sub, nsub)
	msgs := make([]vc05item, nmsg)
	for i := range msgs {
		msgs[i] = vc05item{ID: i + 1, V: vf.Int("v")}
	}
	// the first subscriber subscribes before any publish; the second at a chosen point
	lateAt := 0
	if nsub == 2 {
		lateAt = vf.Range("second-subscribes-after", 0, nmsg)
	}
	published := 0
	subscribe := func(i int) {
		s := &vc08sub{}
		s.ch = b.Subscribe(ctx)
		vf.Assert(s.ch != nil, "subscribe-failed-on-a-live-broker")
		s.subAfter = published
		subs[i] = s
		// a subscriber keeps receiving for as long as the broker lives
		vf.Go(func() {
			for {
				select {
				case m := <-s.ch:
					s.got = append(s.got, m)
				case <-ctx.Done():
					return
				}
			}
		})
	}
	subscribe(0)
	for i := 0; i < nmsg; i++ {
		if nsub == 2 && lateAt == i {
			subscribe(1)
		}
		b.Publish(ctx, msgs[i])
		published++
	}
	if nsub == 2 && lateAt == nmsg {
		subscribe(1)
	}
	vf.Quiesce()
	vf.Reach("lossless-quiescent")
	for _, s := range subs {
		// only published messages, none twice, in publish order (one dispatch worker)
		last := 0
		seen := map[int]bool{}
		for _, m := range s.got {
			ok := m.ID >= 1 && m.ID <= nmsg
			vf.Assert(ok, "subscriber-received-a-message-that-was-never-published")
			if !ok {
				continue
			}
			vf.Assert(m.V == msgs[m.ID-1].V, "message-altered")
			vf.Assert(!seen[m.ID], "subscriber-received-a-publication-twice")
			seen[m.ID] = true
			vf.Assert(m.ID > last, "subscriber-order-differs-from-publish-order")
			last = m.ID
		}
		// everything published after its Subscribe returned
		for id := s.subAfter + 1; id <= nmsg; id++ {
			vf.Assert(seen[id], "subscriber-did-not-receive-every-message-published-after-it-subscribed")
		}
	}
	// C09: clean shutdown
	b.Stop()
	b.Wait(context.Background())
	vf.Quiesce()
	if vf.Live() != 0 {
		vf.Note(vf.LiveInfo())
	}
	vf.Assert(vf.Live() == 0, "broker-goroutine-left-after-stop")
}

// Load-shedding configurations (bounded queue / LIFO deque, buffered
// subscriptions): only published messages, never the same publication twice.
func VC08_Shedding() {
	backend := vf.Choice("backend", 2)
	ctx, cancel := context.WithCancel(context.Background())
	defer cancel()
	opts := BrokerOptions{BufferSize: vf.Range("buffer", 0, 1), WorkerPoolSize: 1}
	var b *Broker[vc05item]
	if backend == 0 {
		q, err := NewQueue[vc05item](QueueOptions{HardLimit: 1, SoftQuota: 1})
		vf.Assert(err == nil, "newqueue-rejected-valid-options")
		b = NewQueueBroker[vc05item](ctx, q, opts)
	} else {
		b = NewLIFOBroker[vc05item](ctx, opts, 1)
	}
	nmsg := 3
	msgs := make([]vc05item, nmsg)
	for i := range msgs {
		msgs[i] = vc05item{ID: i + 1, V: vf.Int("v")}
	}
	ch := b.Subscribe(ctx)
	vf.Assert(ch != nil, "subscribe-failed-on-a-live-broker")
	var got []vc05item
	vf.Go(func() {
		for {
			select {
			case m := <-ch:
				got = append(got, m)
			case <-ctx.Done():
				return
			}
		}
	})
	for i := range msgs {
		b.Publish(ctx, msgs[i])
	}
	vf.Quiesce()
	vf.Reach("shedding-quiescent")
	seen := map[int]bool{}
	for _, m := range got {
		ok := m.ID >= 1 && m.ID <= nmsg
		vf.Assert(ok, "subscriber-received-a-message-that-was-never-published")
		if ok {
			vf.Assert(m.V == msgs[m.ID-1].V, "message-altered")
			vf.Assert(!seen[m.ID], "subscriber-received-a-publication-twice")
			seen[m.ID] = true
		}
	}
	b.Stop()
	b.Wait(context.Background())
	vf.Quiesce()
	vf.Assert(vf.Live() == 0, "broker-goroutine-left-after-stop")
}

// Unsubscribe: the remaining subscriber still gets everything; the one that
// left got everything published before its Unsubscribe was called.
// Unsubscribing twice (or a channel that is not subscribed) is harmless.
func VC08_Unsubscribe() {
	backend := vf.Choice("backend", 3)
	ctx, cancel := context.WithCancel(context.Background())
	defer cancel()
	b := vc08broker(ctx, backend, BrokerOptions{WorkerPoolSize: 1})
	nmsg := 2
	msgs := make([]vc05item, nmsg)
	for i := range msgs {
		msgs[i] = vc05item{ID: i + 1, V: vf.Int("v")}
	}
	got := make([][]vc05item, 2)
	chans := make([]chan vc05item, 2)
	for i := 0; i < 2; i++ {
		i := i
		chans[i] = b.Subscribe(ctx)
		vf.Assert(chans[i] != nil, "subscribe-failed-on-a-live-broker")
		vf.Go(func() {
			for {
				select {
				case m := <-chans[i]:
					got[i] = append(got[i], m)
				case <-ctx.Done():
					return
				}
			}
		})
	}
	leaveAfter := vf.Range("second-leaves-after", 0, nmsg)
	times := vf.Range("unsubscribe-calls", 1, 2)
	published := 0
	leave := func() {
		for k := 0; k < times; k++ {
			b.Unsubscribe(ctx, chans[1])
		}
		if vf.Choice("also-unsubscribe-a-stranger", 2) == 1 {
			b.Unsubscribe(ctx, make(chan vc05item))
		}
	}
	for i := 0; i < nmsg; i++ {
		if leaveAfter == i {
			leave()
		}
		b.Publish(ctx, msgs[i])
		published++
	}
	if leaveAfter == nmsg {
		leave()
	}
	vf.Quiesce()
	vf.Reach("unsubscribe-quiescent")
	for i := 0; i < 2; i++ {
		seen := map[int]bool{}
		last := 0
		for _, m := range got[i] {
			ok := m.ID >= 1 && m.ID <= nmsg
			vf.Assert(ok, "subscriber-received-a-message-that-was-never-published")
			if !ok {
				continue
			}
			vf.Assert(m.V == msgs[m.ID-1].V, "message-altered")
			vf.Assert(!seen[m.ID], "subscriber-received-a-publication-twice")
			seen[m.ID] = true
			vf.Assert(m.ID > last, "subscriber-order-differs-from-publish-order")
			last = m.ID
		}
		must := nmsg
		if i == 1 {
			must = leaveAfter
		}
		for id := 1; id <= must; id++ {
			if i == 1 {
				vf.Assert(seen[id], "subscriber-did-not-receive-every-message-published-while-it-was-subscribed@leaving-subscriber")
			} else {
				vf.Assert(seen[id], "subscriber-did-not-receive-every-message-published-while-it-was-subscribed")
			}
		}
	}
	b.Stop()
	b.Wait(context.Background())
	vf.Quiesce()
	vf.Assert(vf.Live() == 0, "broker-goroutine-left-after-stop")
}
