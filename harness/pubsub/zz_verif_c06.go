package pubsub

import (
	"context"
	"errors"
	"io"
)

// C06: pubsub.Deque against a reference double-ended queue.

type vc06ref struct {
	items  []vc05item // front ... back
	closed bool
	capa   int // fixed capacity, 0 = none
	hard   int // quota tracker: hard limit, 0 = none
}

func (r *vc06ref) pushFront(it vc05item) {
	r.items = append([]vc05item{it}, r.items...)
}
func (r *vc06ref) pushBack(it vc05item) { r.items = append(append([]vc05item(nil), r.items...), it) }
func (r *vc06ref) popFront() (vc05item, bool) {
	if len(r.items) == 0 {
		return vc05item{}, false
	}
	it := r.items[0]
	r.items = append([]vc05item(nil), r.items[1:]...)
	return it, true
}
func (r *vc06ref) popBack() (vc05item, bool) {
	n := len(r.items)
	if n == 0 {
		return vc05item{}, false
	}
	it := r.items[n-1]
	r.items = append([]vc05item(nil), r.items[:n-1]...)
	return it, true
}

// push: plain push outcome against the reference
func (r *vc06ref) push(it vc05item, front bool, got int, lab string) {
	n := len(r.items)
	switch {
	case r.closed:
		vf.Assert(got == vc05closed, "push-on-closed-deque-not-ErrQueueClosed"+lab)
		return
	case r.capa > 0 && n >= r.capa:
		vf.Assert(got == vc05full, "push-on-full-deque-did-not-fail-with-ErrQueueFull"+lab)
		return
	case r.hard > 0 && n >= r.hard:
		vf.Assert(got == vc05full, "push-at-hard-limit-did-not-fail-with-ErrQueueFull"+lab)
		return
	case r.hard > 0 && n > 0:
		// quota tracker: credit grants and the dynamic soft quota are not specified
		vf.Assert(got == vc05ok || got == vc05nocredit, "push-below-hard-limit-failed-with-unexpected-error"+lab)
	default:
		vf.Assert(got == vc05ok, "push-with-free-capacity-failed"+lab)
	}
	if got == vc05ok {
		if front {
			r.pushFront(it)
		} else {
			r.pushBack(it)
		}
	}
}

// force: Force push outcome; lenAfter is the deque's Len after the call
func (r *vc06ref) force(it vc05item, front bool, got int, lenAfter int, lab string) {
	n := len(r.items)
	if r.closed {
		vf.Assert(got == vc05closed, "forcepush-on-closed-deque-not-ErrQueueClosed"+lab)
		return
	}
	vf.Assert(got == vc05ok, "forcepush-on-open-deque-failed"+lab)
	if got != vc05ok {
		return
	}
	evicted := n + 1 - lenAfter
	switch {
	case r.capa > 0:
		want := 0
		if n >= r.capa {
			want = 1
		}
		vf.Assert(evicted == want, "forcepush-eviction-count"+lab)
	case r.hard > 0:
		vf.Assert(evicted == 0 || (evicted == 1 && n > 0), "forcepush-evicted-more-than-one-item"+lab)
	default:
		vf.Assert(evicted == 0, "forcepush-evicted-from-an-unlimited-deque"+lab)
	}
	if evicted == 1 {
		// from the opposite end
		if front {
			r.popBack()
		} else {
			r.popFront()
		}
	}
	if front {
		r.pushFront(it)
	} else {
		r.pushBack(it)
	}
}

func vc06new() (*Deque[vc05item], *vc06ref) {
	switch vf.Choice("kind", 3) {
	case 0:
		return NewUnlimitedDeque[vc05item](), &vc06ref{}
	case 1:
		c := vf.Range("cap", 1, 3)
		dq, err := NewDeque[vc05item](DequeOptions{Capacity: c})
		vf.Assert(err == nil, "newdeque-rejected-valid-options")
		return dq, &vc06ref{capa: c}
	}
	hard := vf.Range("hard", 1, 3)
	soft := vf.Range("soft", 0, hard)
	dq, err := NewDeque[vc05item](DequeOptions{QueueOptions: &QueueOptions{HardLimit: hard, SoftQuota: soft}})
	vf.Assert(err == nil, "newdeque-rejected-valid-options")
	return dq, &vc06ref{hard: hard}
}

// observe compares Len and both non-destructive walks with the reference.
func (r *vc06ref) observe(dq *Deque[vc05item], lab string) {
	ctx := context.Background()
	n := len(r.items)
	vf.Assert(dq.Len() == n, "len-differs-from-reference"+lab)
	if r.capa > 0 {
		vf.Assert(dq.Len() <= r.capa, "len-exceeds-capacity"+lab)
	}
	if r.hard > 0 {
		vf.Assert(dq.Len() <= r.hard, "len-exceeds-hard-limit"+lab)
	}
	p := dq.Producer()
	cnt := 0
	for cnt <= n+1 {
		it, err := p(ctx)
		if err != nil {
			vf.Assert(errors.Is(err, io.EOF), "forward-walk-error"+lab)
			break
		}
		if cnt < n {
			vc05same(it, r.items[cnt], "@forward-walk"+lab)
		}
		cnt++
	}
	vf.Assert(cnt == n, "forward-walk-length-differs-from-reference"+lab)
	p = dq.ProducerReverse()
	cnt = 0
	for cnt <= n+1 {
		it, err := p(ctx)
		if err != nil {
			break
		}
		if cnt < n {
			vc05same(it, r.items[n-1-cnt], "@backward-walk"+lab)
		}
		cnt++
	}
	vf.Assert(cnt == n, "backward-walk-length-differs-from-reference"+lab)
}

func VC06_Step() {
	vf.SetPreempt(0)
	dq, r := vc06new()
	nid := 0
	mk := func() vc05item { nid++; return vc05item{ID: nid, V: vf.Int("v")} }
	pre := vf.Range("prefix", 0, 3)
	for i := 0; i < pre; i++ {
		it := mk()
		front := vf.Choice("prefix-front", 2) == 1
		if front {
			r.push(it, true, vc05class(dq.PushFront(it)), "@prefix")
		} else {
			r.push(it, false, vc05class(dq.PushBack(it)), "@prefix")
		}
	}
	if vf.Choice("closed", 2) == 1 {
		vf.Assert(dq.Close() == nil, "close-failed")
		r.closed = true
	}
	vf.Reach("prefix-built")
	r.observe(dq, "@prefix")
	cctx, cancel := context.WithCancel(context.Background())
	cancel()
	nops := 2
	if vf.Thorough() {
		nops = 3
	}
	for k := 0; k < nops; k++ {
		op := vf.Choice("op", 12)
		front := op%2 == 0
		lab := "@op"
		switch op {
		case 0, 1: // PushFront / PushBack
			it := mk()
			if front {
				r.push(it, true, vc05class(dq.PushFront(it)), lab)
			} else {
				r.push(it, false, vc05class(dq.PushBack(it)), lab)
			}
		case 2, 3: // PopFront / PopBack
			var got, want vc05item
			var ok, wok bool
			if front {
				got, ok = dq.PopFront()
			} else {
				got, ok = dq.PopBack()
			}
			if r.closed {
				vf.Assert(!ok, "pop-on-closed-deque-reported-ok")
				break
			}
			if front {
				want, wok = r.popFront()
			} else {
				want, wok = r.popBack()
			}
			vf.Assert(ok == wok, "pop-availability-differs-from-reference")
			if ok && wok {
				vc05same(got, want, "@pop")
			}
		case 4, 5: // ForcePushFront / ForcePushBack
			it := mk()
			var err error
			if front {
				err = dq.ForcePushFront(it)
			} else {
				err = dq.ForcePushBack(it)
			}
			r.force(it, front, vc05class(err), dq.Len(), lab)
			if err == nil {
				// the new item sits at its end
				if front {
					vc05same(r.items[0], it, "@forcepush-position")
				}
			}
		case 6, 7: // WaitFront / WaitBack with a cancelled context
			var got vc05item
			var err error
			if front {
				got, err = dq.WaitFront(cctx)
			} else {
				got, err = dq.WaitBack(cctx)
			}
			switch {
			case r.closed:
				vf.Assert(errors.Is(err, ErrQueueClosed), "wait-on-closed-deque-not-ErrQueueClosed")
			case len(r.items) == 0:
				vf.Assert(errors.Is(err, context.Canceled), "wait-with-cancelled-context-on-empty-deque")
			default:
				var want vc05item
				if front {
					want, _ = r.popFront()
				} else {
					want, _ = r.popBack()
				}
				vf.Assert(err == nil, "wait-on-non-empty-deque-failed")
				if err == nil {
					vc05same(got, want, "@wait")
				}
			}
		case 8, 9: // WaitPushFront / WaitPushBack with a cancelled context
			it := mk()
			var err error
			if front {
				err = dq.WaitPushFront(cctx, it)
			} else {
				err = dq.WaitPushBack(cctx, it)
			}
			if errors.Is(err, context.Canceled) {
				// no effect; legitimate only without free capacity
				vf.Assert((r.capa > 0 && len(r.items) >= r.capa) || (r.hard > 0 && len(r.items) > 0), "waitpush-gave-up-although-capacity-was-free")
			} else {
				r.push(it, front, vc05class(err), "@waitpush")
			}
		case 10:
			vf.Assert(dq.Len() == len(r.items), "len-differs-from-reference@Len")
		case 11:
			vf.Assert(dq.Close() == nil, "close-failed")
			r.closed = true
		}
		r.observe(dq, "@after-op")
	}
	vf.Reach("op-done")
	vf.Quiesce()
	vf.Assert(vf.Live() == 0, "helper-goroutine-left-behind")
}

// ---------------------------------------------------------------- histories

const (
	vc06PushFront = iota
	vc06PushBack
	vc06PopFront
	vc06PopBack
	vc06ForceFront
	vc06ForceBack
	vc06WaitFront
	vc06WaitBack
	vc06WaitPushBack
	vc06Len
	vc06Close
	vc06Cancel
	vc06nKinds
)

type vc06hm struct {
	items     []int
	closed    bool
	cancelled bool
	capacity  int
}

func (m *vc06hm) clone() *vc06hm {
	c := *m
	c.items = append([]int(nil), m.items...)
	return &c
}

func (m *vc06hm) ins(id int, front bool) {
	if front {
		m.items = append([]int{id}, m.items...)
	} else {
		m.items = append(m.items, id)
	}
}

func (m *vc06hm) take(front bool) {
	if front {
		m.items = m.items[1:]
	} else {
		m.items = m.items[:len(m.items)-1]
	}
}

func (m *vc06hm) end(front bool) int {
	if front {
		return m.items[0]
	}
	return m.items[len(m.items)-1]
}

func (m *vc06hm) apply(o *vc05rec) bool {
	full := m.capacity > 0 && len(m.items) >= m.capacity
	switch o.kind {
	case vc06PushFront, vc06PushBack:
		switch {
		case m.closed:
			return o.class == vc05closed
		case full:
			return o.class == vc05full
		}
		if o.class != vc05ok {
			return false
		}
		m.ins(o.arg.ID, o.kind == vc06PushFront)
		return true
	case vc06ForceFront, vc06ForceBack:
		if m.closed {
			return o.class == vc05closed
		}
		if o.class != vc05ok {
			return false
		}
		if full {
			m.take(o.kind != vc06ForceFront)
		}
		m.ins(o.arg.ID, o.kind == vc06ForceFront)
		return true
	case vc06PopFront, vc06PopBack:
		if !o.ok {
			return m.closed || len(m.items) == 0
		}
		front := o.kind == vc06PopFront
		if m.closed || len(m.items) == 0 || m.end(front) != o.got.ID {
			return false
		}
		m.take(front)
		return true
	case vc06WaitFront, vc06WaitBack:
		front := o.kind == vc06WaitFront
		switch o.class {
		case vc05ok:
			if m.closed || len(m.items) == 0 || m.end(front) != o.got.ID {
				return false
			}
			m.take(front)
			return true
		case vc05closed:
			return m.closed
		case vc05other:
			return m.cancelled && len(m.items) == 0 && !m.closed
		}
		return false
	case vc06WaitPushBack:
		switch o.class {
		case vc05ok:
			if m.closed || full {
				return false
			}
			m.ins(o.arg.ID, false)
			return true
		case vc05closed:
			return m.closed
		case vc05other:
			return m.cancelled && full && !m.closed
		}
		return false
	case vc06Len:
		return o.n == len(m.items)
	case vc06Close:
		m.closed = true
		return true
	case vc06Cancel:
		m.cancelled = true
		return true
	}
	return false
}

func vc06search(m *vc06hm, ops []*vc05rec, done []bool, final []int) bool {
	all := true
	for i, o := range ops {
		if done[i] {
			continue
		}
		all = false
		ready := true
		for j, p := range ops {
			if j != i && !done[j] && p.rsp < o.inv {
				ready = false
			}
		}
		if !ready {
			continue
		}
		c := m.clone()
		if !c.apply(o) {
			continue
		}
		done[i] = true
		if vc06search(c, ops, done, final) {
			done[i] = false
			return true
		}
		done[i] = false
	}
	if !all {
		return false
	}
	if len(final) != len(m.items) {
		return false
	}
	for i := range final {
		if final[i] != m.items[i] {
			return false
		}
	}
	return true
}

func VC06_Hist() {
	capacity := vf.Choice("capacity", 2)
	var dq *Deque[vc05item]
	if capacity == 0 {
		dq = NewUnlimitedDeque[vc05item]()
	} else {
		var err error
		dq, err = NewDeque[vc05item](DequeOptions{Capacity: 1})
		vf.Assert(err == nil, "newdeque-rejected-valid-options")
	}
	m := &vc06hm{capacity: capacity}
	if vf.Choice("prefilled", 2) == 1 {
		vf.Assert(dq.PushBack(vc05item{ID: 100}) == nil, "prefill")
		m.items = append(m.items, 100)
	}
	ctx, cancel := context.WithCancel(context.Background())
	// (three goroutines x four operations do not complete within the thorough
	// budget; the thorough tier raises the preemption bound instead)
	ng := 2
	var progs [][]*vc05rec
	var all []*vc05rec
	vals := map[int]int{}
	nid := 0
	for g := 0; g < ng; g++ {
		n := 1
		if g == 0 {
			n = 2
		}
		var p []*vc05rec
		for i := 0; i < n; i++ {
			o := &vc05rec{kind: vf.Choice("op", vc06nKinds)}
			switch o.kind {
			case vc06PushFront, vc06PushBack, vc06ForceFront, vc06ForceBack, vc06WaitPushBack:
				nid++
				o.arg = vc05item{ID: nid, V: vf.Int("v")}
				vals[nid] = o.arg.V
			}
			p = append(p, o)
			all = append(all, o)
		}
		progs = append(progs, p)
	}
	for g := range progs {
		g := g
		vf.Go(func() {
			for _, o := range progs[g] {
				o.inv = vf.Stamp()
				var err error
				switch o.kind {
				case vc06PushFront:
					o.class = vc05class(dq.PushFront(o.arg))
				case vc06PushBack:
					o.class = vc05class(dq.PushBack(o.arg))
				case vc06ForceFront:
					o.class = vc05class(dq.ForcePushFront(o.arg))
				case vc06ForceBack:
					o.class = vc05class(dq.ForcePushBack(o.arg))
				case vc06PopFront:
					o.got, o.ok = dq.PopFront()
				case vc06PopBack:
					o.got, o.ok = dq.PopBack()
				case vc06WaitFront:
					o.got, err = dq.WaitFront(ctx)
					o.class = vc05class(err)
				case vc06WaitBack:
					o.got, err = dq.WaitBack(ctx)
					o.class = vc05class(err)
				case vc06WaitPushBack:
					o.class = vc05class(dq.WaitPushBack(ctx, o.arg))
				case vc06Len:
					o.n = dq.Len()
				case vc06Close:
					_ = dq.Close()
				case vc06Cancel:
					cancel()
				}
				o.rsp = vf.Stamp()
			}
		})
	}
	vf.Quiesce()
	vf.Reach("history-quiescent")
	fin := &vc05rec{kind: vc06Cancel}
	fin.inv = vf.Stamp()
	cancel()
	fin.rsp = vf.Stamp()
	vf.Quiesce()
	var ops []*vc05rec
	for _, o := range all {
		vf.Assert(o.inv != 0 && o.rsp != 0, "operation-still-parked-after-cancellation")
		ops = append(ops, o)
	}
	ops = append(ops, fin)
	// final contents through the non-destructive walk (pops fail once closed)
	var final []int
	p := dq.Producer()
	bg := context.Background()
	for i := 0; i < 8; i++ {
		it, err := p(bg)
		if err != nil {
			break
		}
		final = append(final, it.ID)
		if it.ID != 100 {
			vf.Assert(it.V == vals[it.ID], "item-value-altered")
		}
	}
	vf.Assert(dq.Len() == len(final), "len-differs-from-walk")
	for _, o := range ops {
		got := false
		switch o.kind {
		case vc06PopFront, vc06PopBack:
			got = o.ok
		case vc06WaitFront, vc06WaitBack:
			got = o.class == vc05ok
		}
		if got && o.got.ID != 100 {
			v, known := vals[o.got.ID]
			vf.Assert(known, "received-an-item-that-was-never-pushed")
			if known {
				vf.Assert(o.got.V == v, "item-value-altered")
			}
		}
	}
	done := make([]bool, len(ops))
	vf.Assert(vc06search(m, ops, done, final), "history-not-linearizable")
	vf.Assert(vf.Live() == 0, "helper-goroutine-left-behind")
}
