package pubsub

import "context"

// C13: every unordered pair (thorough: selected triples) of public methods of
// one shared instance runs concurrently; the happens-before monitor of the
// engine reports any pair of conflicting accesses that is not ordered.

func vc13pick(n int) []int {
	a := vf.Choice("a", n)
	b := vf.Choice("b", n)
	if b < a {
		// unordered pairs: (b,a) is explored as (a,b)
		vf.Assume(false)
	}
	// (triples of Queue/Deque operations do not complete within the thorough
	// budget; the thorough tier raises the preemption bound instead)
	return []int{a, b}
}

func VC13_Queue() {
	var q *Queue[vc05item]
	if vf.Choice("bounded", 2) == 1 {
		q, _ = NewQueue[vc05item](QueueOptions{HardLimit: 2, SoftQuota: 1})
	} else {
		q = NewUnlimitedQueue[vc05item]()
	}
	if vf.Choice("prefilled", 2) == 1 {
		_ = q.Add(vc05item{ID: 100})
	}
	ctx, cancel := context.WithCancel(context.Background())
	d := q.Distributor()
	ops := []func(){
		func() { _ = q.Add(vc05item{ID: 1, V: vf.Int("v")}) },
		func() { _ = q.BlockingAdd(ctx, vc05item{ID: 2}) },
		func() { _, _ = q.Remove() },
		func() { _, _ = q.Wait(ctx) },
		func() { _ = q.Len() },
		func() { _ = q.Close() },
		func() { _ = d.Send(ctx, vc05item{ID: 3}) },
		func() { _, _ = d.Receive(ctx) },
		func() { _ = d.Len() },
		func() {
			p := q.Producer()
			for i := 0; i < 2; i++ {
				if _, err := p(ctx); err != nil {
					break
				}
			}
		},
		func() {
			it := d.Iterator()
			if it.Next(ctx) {
				_ = it.Value()
			}
			_ = it.Close()
		},
	}
	for _, i := range vc13pick(len(ops)) {
		vf.Go(ops[i])
	}
	vf.Quiesce()
	cancel()
	vf.Quiesce()
	vf.Reach("queue-pairs")
}

func VC13_Deque() {
	var dq *Deque[vc05item]
	if vf.Choice("bounded", 2) == 1 {
		dq, _ = NewDeque[vc05item](DequeOptions{Capacity: 1})
	} else {
		dq = NewUnlimitedDeque[vc05item]()
	}
	if vf.Choice("prefilled", 2) == 1 {
		_ = dq.PushBack(vc05item{ID: 100})
	}
	ctx, cancel := context.WithCancel(context.Background())
	d := dq.Distributor()
	dn := dq.DistributorNonBlocking()
	ops := []func(){
		func() { _ = dq.PushFront(vc05item{ID: 1, V: vf.Int("v")}) },
		func() { _ = dq.PushBack(vc05item{ID: 2}) },
		func() { _, _ = dq.PopFront() },
		func() { _, _ = dq.PopBack() },
		func() { _ = dq.ForcePushFront(vc05item{ID: 3}) },
		func() { _ = dq.ForcePushBack(vc05item{ID: 4}) },
		func() { _, _ = dq.WaitFront(ctx) },
		func() { _, _ = dq.WaitBack(ctx) },
		func() { _ = dq.WaitPushFront(ctx, vc05item{ID: 5}) },
		func() { _ = dq.WaitPushBack(ctx, vc05item{ID: 6}) },
		func() { _ = dq.Len() },
		func() { _ = dq.Close() },
		func() {
			p := dq.Producer()
			for i := 0; i < 2; i++ {
				if _, err := p(ctx); err != nil {
					break
				}
			}
		},
		func() {
			p := dq.ProducerReverseBlocking()
			_, _ = p(ctx)
		},
		func() { _ = d.Send(ctx, vc05item{ID: 7}); _ = d.Len() },
		func() { _, _ = dn.Receive(ctx) },
	}
	for _, i := range vc13pick(len(ops)) {
		vf.Go(ops[i])
	}
	vf.Quiesce()
	cancel()
	vf.Quiesce()
	vf.Reach("deque-pairs")
}
