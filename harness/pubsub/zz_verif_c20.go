package pubsub

import (
	"context"
	"errors"
	"io"

	"github.com/tychoish/fun"
)

// C20: non-destructive Queue/Deque iterators. One iterator goroutine, one
// mutator goroutine; every interleaving at lock-release granularity.

type vc20run struct {
	yields   []vc05item
	ended    bool
	endErr   error
	finished bool
}

// iterate calls the producer until it fails (at most max times).
func (r *vc20run) iterate(ctx context.Context, p fun.Producer[vc05item], max int) {
	for i := 0; i < max; i++ {
		it, err := p(ctx)
		if err != nil {
			r.ended = true
			r.endErr = err
			break
		}
		r.yields = append(r.yields, it)
	}
	r.finished = true
}

const (
	vc20Add = iota // at the end the iterator moves towards
	vc20Close
	vc20Cancel
	vc20Remove // from the front (queue) / the end the iterator started at
	vc20RemoveOther
	vc20AddOther
)

func VC20_Queue() {
	q := NewUnlimitedQueue[vc05item]()
	vals := map[int]int{}
	var order []int // expected sequence when nothing is removed
	nid := 0
	m := vf.Range("initial", 0, 2)
	for i := 0; i < m; i++ {
		nid++
		it := vc05item{ID: nid, V: vf.Int("v")}
		vals[nid] = it.V
		vf.Assert(q.Add(it) == nil, "add-failed-on-unlimited-queue")
		order = append(order, nid)
	}
	withRemovals := vf.Choice("with-removals", 2) == 1
	nops := vf.Range("mutations", 1, 3)
	kinds := make([]int, nops)
	args := make([]vc05item, nops)
	closes, cancels := false, false
	for i := range kinds {
		if withRemovals {
			kinds[i] = vf.Choice("op", 4)
		} else {
			kinds[i] = vf.Choice("op", 3)
		}
		switch kinds[i] {
		case vc20Add:
			nid++
			args[i] = vc05item{ID: nid, V: vf.Int("v")}
			vals[nid] = args[i].V
		case vc20Close:
			closes = true
		case vc20Cancel:
			cancels = true
		}
	}
	ctx, cancel := context.WithCancel(context.Background())
	run := &vc20run{}
	useIterator := vf.Choice("via-iterator", 2) == 1
	vf.Go(func() {
		if useIterator {
			it := q.Iterator()
			for i := 0; i < nid+2 && it.Next(ctx); i++ {
				run.yields = append(run.yields, it.Value())
			}
			run.ended = true
			run.endErr = io.EOF
			run.finished = true
			return
		}
		run.iterate(ctx, q.Producer(), nid+2)
	})
	added := make([]bool, nops)
	vf.Go(func() {
		for i, k := range kinds {
			switch k {
			case vc20Add:
				added[i] = q.Add(args[i]) == nil
			case vc20Close:
				_ = q.Close()
			case vc20Cancel:
				cancel()
			case vc20Remove:
				_, _ = q.Remove()
			}
		}
	})
	vf.Quiesce()
	vf.Reach("queue-quiescent")
	for i, k := range kinds {
		if k == vc20Add && added[i] {
			order = append(order, args[i].ID)
		}
	}
	// weak clauses (always)
	seen := map[int]bool{}
	for _, y := range run.yields {
		v, known := vals[y.ID]
		vf.Assert(known, "iterator-yielded-a-value-that-was-never-in-the-queue")
		if known {
			vf.Assert(y.V == v, "iterator-yielded-an-altered-value")
		}
		vf.Assert(!seen[y.ID], "iterator-yielded-an-item-twice")
		seen[y.ID] = true
	}
	if closes || cancels {
		vf.Assert(run.finished, "iterator-still-blocked-after-close-or-cancellation")
	}
	if !withRemovals {
		// strong clauses
		vf.Assert(len(run.yields) <= len(order), "iterator-yielded-more-items-than-exist")
		for i, y := range run.yields {
			if i < len(order) {
				vf.Assert(y.ID == order[i], "iterator-order-differs-from-queue-order")
			}
		}
		if !cancels {
			// whether parked or ended by Close: nothing unseen may remain
			vf.Assert(len(run.yields) == len(order), "iterator-parked-or-ended-with-an-unseen-item-present")
			if closes {
				vf.Assert(run.ended && errors.Is(run.endErr, io.EOF), "iterator-did-not-end-with-EOF-after-close")
			} else {
				vf.Assert(!run.finished, "iterator-ended-although-the-queue-is-open")
			}
		}
		// nothing was removed
		vf.Assert(q.Len() == len(order), "iterator-removed-items")
	}
	cancel()
	vf.Quiesce()
	vf.Assert(run.finished, "iterator-still-blocked-after-close-or-cancellation")
	vf.Assert(vf.Live() == 0, "helper-goroutine-left-behind")
}

func VC20_Deque() {
	dq := NewUnlimitedDeque[vc05item]()
	reverse := vf.Choice("reverse", 2) == 1
	blocking := vf.Choice("blocking", 2) == 1
	vals := map[int]int{}
	var order []int
	nid := 0
	m := vf.Range("initial", 0, 2)
	for i := 0; i < m; i++ {
		nid++
		it := vc05item{ID: nid, V: vf.Int("v")}
		vals[nid] = it.V
		// build so that `order` is the iterator's direction of travel
		if reverse {
			vf.Assert(dq.PushFront(it) == nil, "push-failed-on-unlimited-deque")
		} else {
			vf.Assert(dq.PushBack(it) == nil, "push-failed-on-unlimited-deque")
		}
		order = append(order, nid)
	}
	withRemovals := vf.Choice("with-removals", 2) == 1
	nops := vf.Range("mutations", 1, 2)
	if vf.Thorough() {
		nops = vf.Range("mutations3", 1, 3)
	}
	kinds := make([]int, nops)
	args := make([]vc05item, nops)
	closes, cancels := false, false
	for i := range kinds {
		if withRemovals {
			kinds[i] = vf.Choice("op", 6)
		} else {
			kinds[i] = vf.Choice("op", 3)
		}
		switch kinds[i] {
		case vc20Add, vc20AddOther:
			nid++
			args[i] = vc05item{ID: nid, V: vf.Int("v")}
			vals[nid] = args[i].V
		case vc20Close:
			closes = true
		case vc20Cancel:
			cancels = true
		}
	}
	ctx, cancel := context.WithCancel(context.Background())
	run := &vc20run{}
	var p fun.Producer[vc05item]
	switch {
	case !reverse && !blocking:
		p = dq.Producer()
	case !reverse && blocking:
		p = dq.ProducerBlocking()
	case reverse && !blocking:
		p = dq.ProducerReverse()
	default:
		p = dq.ProducerReverseBlocking()
	}
	vf.Go(func() { run.iterate(ctx, p, nid+2) })
	added := make([]bool, nops)
	vf.Go(func() {
		for i, k := range kinds {
			switch k {
			case vc20Add:
				if reverse {
					added[i] = dq.PushFront(args[i]) == nil
				} else {
					added[i] = dq.PushBack(args[i]) == nil
				}
			case vc20AddOther:
				if reverse {
					_ = dq.PushBack(args[i])
				} else {
					_ = dq.PushFront(args[i])
				}
			case vc20Close:
				_ = dq.Close()
			case vc20Cancel:
				cancel()
			case vc20Remove:
				if reverse {
					_, _ = dq.PopBack()
				} else {
					_, _ = dq.PopFront()
				}
			case vc20RemoveOther:
				if reverse {
					_, _ = dq.PopFront()
				} else {
					_, _ = dq.PopBack()
				}
			}
		}
	})
	vf.Quiesce()
	vf.Reach("deque-quiescent")
	nAddedLater := 0
	for i, k := range kinds {
		if k == vc20Add && added[i] {
			order = append(order, args[i].ID)
			nAddedLater++
		}
	}
	seen := map[int]bool{}
	for _, y := range run.yields {
		v, known := vals[y.ID]
		vf.Assert(known, "iterator-yielded-a-value-that-was-never-in-the-deque")
		if known {
			vf.Assert(y.V == v, "iterator-yielded-an-altered-value")
		}
		vf.Assert(!seen[y.ID], "iterator-yielded-an-item-twice")
		seen[y.ID] = true
	}
	if closes || cancels || !blocking {
		vf.Assert(run.finished, "iterator-still-blocked-after-close-or-cancellation")
	}
	if !withRemovals {
		vf.Assert(len(run.yields) <= len(order), "iterator-yielded-more-items-than-exist")
		for i, y := range run.yields {
			if i < len(order) {
				vf.Assert(y.ID == order[i], "iterator-order-differs-from-deque-order")
			}
		}
		// the items present when the iterator was created are all seen
		if !cancels {
			vf.Assert(len(run.yields) >= m, "iterator-missed-an-item-that-was-present")
		}
		if blocking && !cancels {
			vf.Assert(len(run.yields) == len(order), "iterator-parked-or-ended-with-an-unseen-item-present")
			if closes {
				vf.Assert(run.ended && errors.Is(run.endErr, io.EOF), "iterator-did-not-end-with-EOF-after-close")
			} else {
				vf.Assert(!run.finished, "blocking-iterator-ended-although-the-deque-is-open")
			}
		}
		if !blocking {
			vf.Assert(run.ended && (cancels || errors.Is(run.endErr, io.EOF)), "non-blocking-iterator-did-not-finish-at-the-end")
		}
		vf.Assert(dq.Len() == len(order), "iterator-removed-items")
	}
	cancel()
	vf.Quiesce()
	vf.Assert(run.finished, "iterator-still-blocked-after-close-or-cancellation")
	vf.Assert(vf.Live() == 0, "helper-goroutine-left-behind")
}

// The Queue's iterator and its blocked producers wait on the same condition:
// an Add admitted on burst credit must still reach a parked iterator although
// a BlockingAdd is parked too (and stays parked).
func VC20_QueueSharedCond() {
	q, err := NewQueue[vc05item](QueueOptions{HardLimit: 3, SoftQuota: 1})
	vf.Assert(err == nil, "newqueue-rejected-valid-options")
	vf.Assert(q.Add(vc05item{ID: 1}) == nil, "first-add-failed")
	ctx, cancel := context.WithCancel(context.Background())
	run := &vc20run{}
	producerFirst := vf.Choice("producer-parks-first", 2) == 1
	startIter := func() { vf.Go(func() { run.iterate(ctx, q.Producer(), 4) }) }
	blockedDone := false
	startProd := func() {
		vf.Go(func() { _ = q.BlockingAdd(ctx, vc05item{ID: 9}); blockedDone = true })
	}
	if producerFirst {
		startProd()
		vf.Quiesce()
		startIter()
	} else {
		startIter()
		vf.Quiesce()
		startProd()
	}
	vf.Quiesce()
	vf.Reach("both-parked")
	vf.Assert(len(run.yields) == 1 && !run.finished, "iterator-did-not-yield-the-present-item-and-park")
	// admitted on burst credit (length == soft quota, credit available)
	added := q.Add(vc05item{ID: 2}) == nil
	vf.Quiesce()
	if added && !blockedDone {
		vf.Assert(len(run.yields) == 2, "iterator-parked-or-ended-with-an-unseen-item-present")
	}
	cancel()
	vf.Quiesce()
	vf.Assert(run.finished, "iterator-still-blocked-after-close-or-cancellation")
	vf.Assert(vf.Live() == 0, "helper-goroutine-left-behind")
}
