package pubsub

import (
	"context"
	"errors"
)

// C05: pubsub.Queue against a reference FIFO.

type vc05item struct {
	ID int
	V  int
}

// reference queue. Admission of a bounded queue is specified only as far as
// the documentation goes: Full at the hard limit, the burst-credit rule from
// construction until the first removal (initial credit, one unit per add above
// the initial soft quota); after a removal the soft quota and the credit
// granted are adjusted dynamically (not specified), so an Add on a non-empty
// queue below the hard limit may either succeed or report NoCredit.
type vc05ref struct {
	items  []vc05item
	closed bool
	hard   int // 0 = unlimited
	soft   int
	credit float64
	exact  bool
}

const (
	vc05ok = iota
	vc05full
	vc05nocredit
	vc05closed
	vc05other
)

func vc05class(err error) int {
	switch {
	case err == nil:
		return vc05ok
	case errors.Is(err, ErrQueueFull):
		return vc05full
	case errors.Is(err, ErrQueueNoCredit):
		return vc05nocredit
	case errors.Is(err, ErrQueueClosed):
		return vc05closed
	}
	return vc05other
}

// add checks the observed outcome of an Add of it against the reference and
// applies it.
func (r *vc05ref) add(it vc05item, got int, lab string) {
	n := len(r.items)
	switch {
	case r.closed:
		vf.Assert(got == vc05closed, "add-on-closed-queue-not-ErrQueueClosed"+lab)
		return
	case r.hard == 0:
		vf.Assert(got == vc05ok, "add-on-unlimited-queue-failed"+lab)
	case n == r.hard:
		vf.Assert(got == vc05full, "add-at-hard-limit-not-ErrQueueFull"+lab)
		return
	case r.exact:
		if n >= r.soft {
			if r.credit < 1 {
				vf.Assert(got == vc05nocredit, "add-above-soft-quota-without-credit-not-ErrQueueNoCredit"+lab)
				return
			}
			r.credit--
		}
		vf.Assert(got == vc05ok, "add-within-limits-failed"+lab)
	case n == 0:
		vf.Assert(got == vc05ok, "add-on-empty-queue-failed"+lab)
	default:
		vf.Assert(got == vc05ok || got == vc05nocredit, "add-below-hard-limit-failed-with-unexpected-error"+lab)
	}
	if got == vc05ok {
		r.items = append(r.items, it)
	}
}

func (r *vc05ref) remove() (vc05item, bool) {
	if len(r.items) == 0 {
		return vc05item{}, false
	}
	it := r.items[0]
	r.items = r.items[1:]
	r.exact = r.hard == 0
	return it, true
}

func vc05same(got vc05item, want vc05item, lab string) {
	vf.Assert(got.ID == want.ID, "wrong-item"+lab)
	vf.Assert(got.V == want.V, "item-value-altered"+lab)
}

// vc05new builds a queue and its reference from symbolic options.
func vc05new(maxHard int) (*Queue[vc05item], *vc05ref) {
	if vf.Choice("unlimited", 2) == 1 {
		return NewUnlimitedQueue[vc05item](), &vc05ref{exact: true}
	}
	// small ranges, case-split: a symbolic soft quota would make the default
	// credit a symbolic float and every admission test a floating-point query
	hard := vf.Range("hard", 1, maxHard)
	soft := vf.Range("soft", 0, hard)
	credit := 0.0
	switch vf.Choice("credit", 4) {
	case 1:
		credit = 0.5
	case 2:
		credit = 1
	case 3:
		credit = 2.5
	}
	q, err := NewQueue[vc05item](QueueOptions{HardLimit: hard, SoftQuota: soft, BurstCredit: credit})
	vf.Assert(err == nil, "newqueue-rejected-valid-options")
	h, s := hard, soft
	if s == 0 {
		s = h
	}
	if credit == 0 {
		credit = float64(s)
	}
	return q, &vc05ref{hard: h, soft: s, credit: credit, exact: true}
}

func (r *vc05ref) drainCheck(q *Queue[vc05item], lab string) {
	vf.Assert(q.Len() == len(r.items), "len-differs-from-reference"+lab)
	if r.hard > 0 {
		vf.Assert(q.Len() <= r.hard, "len-exceeds-hard-limit"+lab)
	}
	n := len(r.items) + 1
	for i := 0; i <= n; i++ {
		got, ok := q.Remove()
		want, wok := r.remove()
		vf.Assert(ok == wok, "remove-availability-differs-from-reference"+lab)
		if !ok || !wok {
			break
		}
		vc05same(got, want, lab)
	}
	vf.Assert(q.Len() == 0, "len-after-drain"+lab)
}

// One arbitrary operation after a canonical prefix, compared with the
// reference; then the queue is drained and compared.
func VC05_Step() {
	vf.SetPreempt(0)
	q, r := vc05new(4)
	nid := 0
	mk := func() vc05item { nid++; return vc05item{ID: nid, V: vf.Int("v")} }
	maxPre := 4
	if vf.Thorough() {
		maxPre = 5
	}
	pre := vf.Range("prefix", 0, maxPre)
	for i := 0; i < pre; i++ {
		// prefix operations: mostly adds, optionally a removal
		if i > 0 && vf.Choice("prefix-remove", 2) == 1 {
			got, ok := q.Remove()
			want, wok := r.remove()
			vf.Assert(ok == wok, "remove-availability-differs-from-reference@prefix")
			if ok && wok {
				vc05same(got, want, "@prefix")
			}
			continue
		}
		it := mk()
		r.add(it, vc05class(q.Add(it)), "@prefix")
	}
	if vf.Choice("closed", 2) == 1 {
		vf.Assert(q.Close() == nil, "close-failed")
		r.closed = true
	}
	vf.Reach("prefix-built")
	vf.Assert(q.Len() == len(r.items), "len-differs-from-reference@prefix")
	cctx, cancel := context.WithCancel(context.Background())
	cancel()
	live := context.Background()
	nops := 2
	if vf.Thorough() {
		nops = 3
	}
	for k := 0; k < nops; k++ {
	switch vf.Choice("op", 9) {
	case 0:
		it := mk()
		r.add(it, vc05class(q.Add(it)), "@Add")
	case 1:
		got, ok := q.Remove()
		want, wok := r.remove()
		vf.Assert(ok == wok, "remove-availability-differs-from-reference@Remove")
		if ok && wok {
			vc05same(got, want, "@Remove")
		}
	case 2:
		vf.Assert(q.Len() == len(r.items), "len-differs-from-reference@Len")
	case 3:
		vf.Assert(q.Close() == nil, "close-failed")
		r.closed = true
	case 4: // Wait with a cancelled context: item if available, else error and no effect
		got, err := q.Wait(cctx)
		if len(r.items) > 0 {
			want, _ := r.remove()
			vf.Assert(err == nil, "wait-on-non-empty-queue-failed")
			if err == nil {
				vc05same(got, want, "@Wait")
			}
		} else if r.closed {
			vf.Assert(errors.Is(err, ErrQueueClosed), "wait-on-closed-empty-queue-not-ErrQueueClosed")
		} else {
			vf.Assert(errors.Is(err, context.Canceled), "wait-with-cancelled-context-on-empty-queue")
		}
	case 5: // Wait with a live context when it cannot block
		if len(r.items) > 0 || r.closed {
			got, err := q.Wait(live)
			if len(r.items) > 0 {
				want, _ := r.remove()
				vf.Assert(err == nil, "wait-on-non-empty-queue-failed")
				if err == nil {
					vc05same(got, want, "@Wait")
				}
			} else {
				vf.Assert(errors.Is(err, ErrQueueClosed), "wait-on-closed-empty-queue-not-ErrQueueClosed")
			}
		}
	case 6: // BlockingAdd with a cancelled context: adds, or returns an error without effect
		it := mk()
		err := q.BlockingAdd(cctx, it)
		got := vc05class(err)
		if errors.Is(err, context.Canceled) {
			// no effect; only legitimate when the queue had no free capacity
			vf.Assert(r.hard > 0 && len(r.items) > 0, "blockingadd-gave-up-although-capacity-was-free")
		} else {
			r.add(it, got, "@BlockingAdd")
		}
	case 7: // Distributor.Send / Len
		d := q.Distributor()
		it := mk()
		r.add(it, vc05class(d.Send(live, it)), "@Send")
		vf.Assert(d.Len() == len(r.items), "distributor-len-differs-from-reference")
	case 8: // Distributor.Receive when it cannot block
		d := q.Distributor()
		if len(r.items) > 0 || r.closed {
			got, err := d.Receive(live)
			if len(r.items) > 0 {
				want, _ := r.remove()
				vf.Assert(err == nil, "receive-on-non-empty-queue-failed")
				if err == nil {
					vc05same(got, want, "@Receive")
				}
			} else {
				vf.Assert(err != nil, "receive-on-closed-empty-queue-succeeded")
			}
		}
	}
	}
	vf.Reach("op-done")
	r.drainCheck(q, "@after-op")
	vf.Quiesce()
	vf.Assert(vf.Live() == 0, "helper-goroutine-left-behind")
}

// ---------------------------------------------------------------- histories

const (
	vc05Add = iota
	vc05Remove
	vc05Len
	vc05Close
	vc05Wait
	vc05BlockingAdd
	vc05Send
	vc05Receive
	vc05DistLen
	vc05Cancel
	vc05nKinds
)

type vc05rec struct {
	kind     int
	arg      vc05item
	inv, rsp int // logical stamps; rsp == 0: still pending at quiescence
	class    int // outcome class (vc05ok ...), vc05other = context error
	ok       bool
	got      vc05item
	n        int
}

type vc05hm struct {
	items     []int // IDs
	closed    bool
	cancelled bool
	capacity  int // 0 = unlimited
}

func (m *vc05hm) clone() *vc05hm {
	c := *m
	c.items = append([]int(nil), m.items...)
	return &c
}

// apply: is the recorded outcome of o what the sequential queue gives in
// state m? If so the effect is applied.
func (m *vc05hm) apply(o *vc05rec) bool {
	full := m.capacity > 0 && len(m.items) >= m.capacity
	switch o.kind {
	case vc05Add, vc05Send:
		switch {
		case m.closed:
			return o.class == vc05closed
		case full:
			return o.class == vc05full
		}
		if o.class != vc05ok {
			return false
		}
		m.items = append(m.items, o.arg.ID)
		return true
	case vc05BlockingAdd:
		switch o.class {
		case vc05ok:
			if m.closed || full {
				return false
			}
			m.items = append(m.items, o.arg.ID)
			return true
		case vc05closed:
			return m.closed
		case vc05other: // context error: only while parked on a full open queue
			return m.cancelled && full && !m.closed
		}
		return false
	case vc05Remove:
		if !o.ok {
			return len(m.items) == 0
		}
		if len(m.items) == 0 || m.items[0] != o.got.ID {
			return false
		}
		m.items = m.items[1:]
		return true
	case vc05Wait, vc05Receive:
		switch o.class {
		case vc05ok:
			if len(m.items) == 0 || m.items[0] != o.got.ID {
				return false
			}
			m.items = m.items[1:]
			return true
		case vc05closed:
			return m.closed && len(m.items) == 0
		case vc05other:
			return m.cancelled && len(m.items) == 0 && !m.closed
		}
		return false
	case vc05Len, vc05DistLen:
		return o.n == len(m.items)
	case vc05Close:
		m.closed = true
		return true
	case vc05Cancel:
		m.cancelled = true
		return true
	}
	return false
}

// blocked: may o still be parked in state m?
func (m *vc05hm) blocked(o *vc05rec) bool {
	switch o.kind {
	case vc05Wait, vc05Receive:
		return len(m.items) == 0 && !m.closed && !m.cancelled
	case vc05BlockingAdd:
		return m.capacity > 0 && len(m.items) >= m.capacity && !m.closed && !m.cancelled
	}
	return false
}

// vc05search: is there an order of the completed operations, consistent with
// real time, that the sequential queue explains, ending in the observed final
// contents with every pending operation legitimately parked?
func vc05search(m *vc05hm, ops []*vc05rec, done []bool, final []int) bool {
	all := true
	for i, o := range ops {
		if done[i] || o.rsp == 0 {
			continue
		}
		all = false
		// real time: every operation that responded before o was invoked must come first
		ready := true
		for j, p := range ops {
			if j != i && !done[j] && p.rsp != 0 && p.rsp < o.inv {
				ready = false
			}
		}
		if !ready {
			continue
		}
		c := m.clone()
		if !c.apply(o) {
			continue
		}
		done[i] = true
		if vc05search(c, ops, done, final) {
			done[i] = false
			return true
		}
		done[i] = false
	}
	if !all {
		return false
	}
	if len(final) != len(m.items) {
		return false
	}
	for i := range final {
		if final[i] != m.items[i] {
			return false
		}
	}
	for _, o := range ops {
		if o.rsp == 0 && !m.blocked(o) {
			return false
		}
	}
	return true
}

func VC05_Hist() {
	capacity := vf.Choice("capacity", 2) // 0 unlimited, 1 = hard limit 1
	var q *Queue[vc05item]
	if capacity == 0 {
		q = NewUnlimitedQueue[vc05item]()
	} else {
		var err error
		q, err = NewQueue[vc05item](QueueOptions{HardLimit: 1, SoftQuota: 1})
		vf.Assert(err == nil, "newqueue-rejected-valid-options")
	}
	m := &vc05hm{capacity: capacity}
	if vf.Choice("prefilled", 2) == 1 {
		vf.Assert(q.Add(vc05item{ID: 100}) == nil, "prefill")
		m.items = append(m.items, 100)
	}
	ctx, cancel := context.WithCancel(context.Background())
	d := q.Distributor()
	// programs: goroutine 0 runs two operations, the others one each
	// (three goroutines x four operations do not complete within the thorough
	// budget; the thorough tier raises the preemption bound instead)
	ng := 2
	var progs [][]*vc05rec
	var all []*vc05rec
	vals := map[int]int{}
	nid := 0
	for g := 0; g < ng; g++ {
		n := 1
		if g == 0 {
			n = 2
		}
		var p []*vc05rec
		for i := 0; i < n; i++ {
			o := &vc05rec{kind: vf.Choice("op", vc05nKinds)}
			if o.kind == vc05Add || o.kind == vc05BlockingAdd || o.kind == vc05Send {
				nid++
				o.arg = vc05item{ID: nid, V: vf.Int("v")}
				vals[nid] = o.arg.V
			}
			p = append(p, o)
			all = append(all, o)
		}
		progs = append(progs, p)
	}
	for g := range progs {
		g := g
		vf.Go(func() {
			for _, o := range progs[g] {
				o.inv = vf.Stamp()
				switch o.kind {
				case vc05Add:
					o.class = vc05class(q.Add(o.arg))
				case vc05Send:
					o.class = vc05class(d.Send(ctx, o.arg))
				case vc05BlockingAdd:
					err := q.BlockingAdd(ctx, o.arg)
					o.class = vc05class(err)
				case vc05Remove:
					o.got, o.ok = q.Remove()
				case vc05Wait:
					var err error
					o.got, err = q.Wait(ctx)
					o.class = vc05class(err)
				case vc05Receive:
					var err error
					o.got, err = d.Receive(ctx)
					o.class = vc05class(err)
				case vc05Len:
					o.n = q.Len()
				case vc05DistLen:
					o.n = d.Len()
				case vc05Close:
					_ = q.Close()
				case vc05Cancel:
					cancel()
				}
				o.rsp = vf.Stamp()
			}
		})
	}
	vf.Quiesce()
	vf.Reach("history-quiescent")
	// operations still parked are released by cancelling the shared context
	// (recorded as one more operation of the history, after everything that
	// has completed); draining the queue first would wake them.
	fin := &vc05rec{kind: vc05Cancel}
	fin.inv = vf.Stamp()
	cancel()
	fin.rsp = vf.Stamp()
	vf.Quiesce()
	// a goroutine whose first operation stayed parked starts its second one now
	var ops []*vc05rec
	for _, o := range all {
		vf.Assert(o.inv != 0 && o.rsp != 0, "operation-still-parked-after-cancellation")
		ops = append(ops, o)
	}
	ops = append(ops, fin)
	// final contents
	var final []int
	for i := 0; i < 8; i++ {
		it, ok := q.Remove()
		if !ok {
			break
		}
		final = append(final, it.ID)
		if it.ID != 100 {
			vf.Assert(it.V == vals[it.ID], "item-value-altered")
		}
	}
	for _, o := range ops {
		if o.rsp != 0 && (o.kind == vc05Remove && o.ok || (o.kind == vc05Wait || o.kind == vc05Receive) && o.class == vc05ok) && o.got.ID != 100 {
			v, known := vals[o.got.ID]
			vf.Assert(known, "received-an-item-that-was-never-added")
			if known {
				vf.Assert(o.got.V == v, "item-value-altered")
			}
		}
	}
	done := make([]bool, len(ops))
	vf.Assert(vc05search(m, ops, done, final), "history-not-linearizable")
	vf.Assert(vf.Live() == 0, "helper-goroutine-left-behind")
}
