package pubsub

import "context"

// C09: broker progress and clean shutdown.

func vc09broker(ctx context.Context, backend int, opts BrokerOptions) *Broker[vc05item] {
	if backend == 3 {
		return NewLIFOBroker[vc05item](ctx, opts, vf.Range("lifo-capacity", 1, 2))
	}
	return vc08broker(ctx, backend, opts)
}

// A burst of publishes (possibly all completing before the dispatcher runs)
// never stalls the broker while the subscribers keep receiving.
func VC09_Progress() {
	backend := vf.Choice("backend", 4)
	nsub := vf.Range("subscribers", 1, 2)
	nmsg := vf.Range("burst", 1, 3)
	ctx, cancel := context.WithCancel(context.Background())
	defer cancel()
	b := vc09broker(ctx, backend, BrokerOptions{WorkerPoolSize: 1})
	got := make([][]vc05item, nsub)
	for i := 0; i < nsub; i++ {
		i := i
		ch := b.Subscribe(ctx)
		vf.Assert(ch != nil, "subscribe-failed-on-a-live-broker")
		vf.Go(func() {
			for {
				select {
				case m := <-ch:
					got[i] = append(got[i], m)
				case <-ctx.Done():
					return
				}
			}
		})
	}
	publishedAll := false
	vf.Go(func() {
		for k := 0; k < nmsg; k++ {
			b.Publish(ctx, vc05item{ID: k + 1})
		}
		publishedAll = true
	})
	vf.Quiesce()
	vf.Reach("progress-quiescent")
	vf.Assert(publishedAll, "publish-stalled-on-a-live-broker")
	if backend != 3 {
		for i := 0; i < nsub; i++ {
			vf.Assert(len(got[i]) == nmsg, "accepted-message-never-dispatched")
		}
	} else {
		// LIFO deque of capacity 2 may shed, but whatever it holds is dispatched
		st := b.Stats(ctx)
		vf.Assert(st.BufferDepth == 0, "accepted-message-never-dispatched")
	}
	b.Stop()
	b.Wait(context.Background())
	vf.Quiesce()
	vf.Assert(vf.Live() == 0, "broker-goroutine-left-after-stop")
}

// Stop or cancellation at an arbitrary point relative to publishing and to a
// concurrent Wait: Wait returns, every broker goroutine exits, and the client
// calls return once their own context is cancelled.
func VC09_Shutdown() {
	backend := vf.Choice("backend", 4)
	byCancel := vf.Choice("by-cancel", 2) == 1
	ctx, cancel := context.WithCancel(context.Background())
	defer cancel()
	b := vc09broker(ctx, backend, BrokerOptions{WorkerPoolSize: 1})
	cctx, ccancel := context.WithCancel(context.Background())
	ch := b.Subscribe(cctx)
	vf.Assert(ch != nil, "subscribe-failed-on-a-live-broker")
	vf.Go(func() {
		for {
			select {
			case <-ch:
			case <-cctx.Done():
				return
			}
		}
	})
	// publisher, waiter and stopper run concurrently
	vf.Go(func() {
		for k := 0; k < 2; k++ {
			b.Publish(cctx, vc05item{ID: k + 1})
		}
	})
	waited := false
	vf.Go(func() { b.Wait(context.Background()); waited = true })
	vf.Go(func() {
		if byCancel {
			cancel()
		} else {
			b.Stop()
		}
	})
	vf.Quiesce()
	vf.Reach("shutdown-quiescent")
	vf.Assert(waited, "wait-did-not-return-after-stop-or-cancellation")
	// the clients' own context ends: nothing of theirs may stay blocked
	ccancel()
	vf.Quiesce()
	if vf.Live() != 0 {
		vf.Note(vf.LiveInfo())
	}
	vf.Assert(vf.Live() == 0, "broker-goroutine-left-after-stop")
	// calls on a stopped broker with a cancelled context return
	b.Publish(cctx, vc05item{ID: 9})
	vf.Assert(b.Subscribe(cctx) == nil, "subscribe-succeeded-with-a-cancelled-context")
	b.Unsubscribe(cctx, ch)
	_ = b.Stats(cctx)
	b.Stop()
	b.Wait(cctx)
	vf.Reach("late-calls-returned")
}
