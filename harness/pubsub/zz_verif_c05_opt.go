package pubsub

// C05, optional deepening (constructs private state; skipped if it no longer
// compiles): one step of the burst-credit tracker from an ARBITRARY valid
// state, against the documented credit rules.
func VC05_TrackerStep() {
	length, soft, hard := vf.Int("length"), vf.Int("soft"), vf.Int("hard")
	credit := vf.Float64("credit")
	vf.Assume(hard >= 1)
	vf.Assume(hard <= 16)
	vf.Assume(soft >= 1)
	vf.Assume(soft <= hard)
	vf.Assume(length >= 0)
	vf.Assume(length <= hard)
	vf.Assume(credit >= 0)
	vf.Assume(credit <= float64(hard))
	t := &queueLimitTrackerImpl{softQuota: soft, hardLimit: hard, length: length, credit: credit}
	vf.Reach("state")
	if vf.Choice("op", 2) == 0 {
		err := t.add()
		full := length == hard
		burst := vf.And(length >= soft, length < hard)
		nocredit := vf.And(burst, credit < 1)
		vf.Assert(vf.Or(vf.Not(full), err == error(ErrQueueFull)), "tracker-add-at-hard-limit-not-full")
		vf.Assert(vf.Or(vf.Not(nocredit), err == error(ErrQueueNoCredit)), "tracker-add-without-credit-not-nocredit")
		vf.Assert(vf.Or(vf.Or(full, nocredit), err == nil), "tracker-add-within-rules-failed")
		if err == nil {
			vf.Assert(t.length == length+1, "tracker-add-length")
			vf.Assert(vf.Or(vf.Not(burst), t.credit == credit-1), "tracker-burst-add-did-not-cost-one-credit")
			vf.Assert(vf.Or(burst, t.credit == credit), "tracker-add-below-quota-changed-credit")
		} else {
			vf.Assert(vf.And(t.length == length, t.credit == credit), "tracker-failed-add-had-an-effect")
		}
	} else {
		vf.Assume(length >= 1)
		t.remove()
		vf.Assert(t.length == length-1, "tracker-remove-length")
		vf.Assert(t.credit <= float64(hard), "tracker-credit-exceeds-hard-limit")
	}
	// invariant preserved
	vf.Assert(vf.And(t.length >= 0, t.length <= t.hardLimit), "tracker-invariant-length")
	vf.Assert(vf.And(t.softQuota >= 1, t.softQuota <= t.hardLimit), "tracker-invariant-soft-quota")
	vf.Assert(vf.And(t.credit >= 0, t.credit <= float64(t.hardLimit)), "tracker-invariant-credit")
	vf.Assert(t.hardLimit == hard, "tracker-hard-limit-changed")
}
