package srv

import (
	"context"
	"errors"
	"io"

	"github.com/tychoish/fun"
	"github.com/tychoish/fun/pubsub"
)

// C11: Orchestrator, Group, WorkerPool, HandlerWorkerPool, Cleanup.

var vc11Errs = []error{errors.New("vc11: first failed"), errors.New("vc11: second failed"), errors.New("vc11: third failed")}

const (
	vc11ok = iota
	vc11err
	vc11panic
	vc11blocks
	vc11eof      // (jobs only) a failure that happens to be a sentinel of the iterator machinery
	vc11canceled // (jobs only)
)

type vc11svc struct {
	s       *Service
	state   int
	outcome int
	runs    int
	ended   bool
}

func vc11service(i, outcome int) *vc11svc {
	v := &vc11svc{outcome: outcome}
	v.s = &Service{
		Name: "member",
		Run: func(ctx context.Context) error {
			v.runs++
			defer func() { v.ended = true }()
			switch outcome {
			case vc11err:
				return vc11Errs[i]
			case vc11panic:
				panic(vc11Errs[i])
			case vc11blocks:
				<-ctx.Done()
			}
			return nil
		},
	}
	return v
}

func (v *vc11svc) check(werr error, i int) {
	vf.Assert(v.runs == 1, "service-not-started-exactly-once")
	if v.state == 1 {
		vf.Assert(v.ended, "wait-returned-before-a-service-returned@added-while-running")
	} else {
		vf.Assert(v.ended, "wait-returned-before-a-service-returned")
	}
	if v.outcome == vc11err || v.outcome == vc11panic {
		vf.Assert(werr != nil && errors.Is(werr, vc11Errs[i]), "wait-result-lacks-a-service-failure")
	}
}

func VC11_Orchestrator() {
	ctx, cancel := context.WithCancel(context.Background())
	defer cancel()
	orc := &Orchestrator{}
	n := vf.Range("services", 1, 2)
	svcs := make([]*vc11svc, n)
	late := make([]bool, n)
	for i := 0; i < n; i++ {
		outcome := vf.Choice("outcome", 4)
		state := 0
		if i == 0 {
			state = vf.Choice("state", 3) // 0 not started, 1 running, 2 finished
		} else if outcome > vc11err {
			outcome = vc11ok
		}
		svcs[i] = vc11service(i, outcome)
		svcs[i].state = state
		switch state {
		case 1:
			vf.Assert(svcs[i].s.Start(ctx) == nil, "member-start-failed")
		case 2:
			if outcome == vc11blocks {
				vf.Assume(false)
			}
			vf.Assert(svcs[i].s.Start(ctx) == nil, "member-start-failed")
			_ = svcs[i].s.Wait()
		}
		late[i] = vf.Choice("added-after-start", 2) == 1
		if !late[i] {
			vf.Assert(orc.Add(svcs[i].s) == nil, "orchestrator-add-failed")
		}
	}
	vf.Assert(orc.Start(ctx) == nil, "orchestrator-start-failed")
	for i := 0; i < n; i++ {
		if late[i] {
			vf.Assert(orc.Add(svcs[i].s) == nil, "orchestrator-add-failed")
		}
	}
	vf.Quiesce()
	vf.Reach("orchestrator-running")
	for i := 0; i < n; i++ {
		vf.Assert(svcs[i].runs == 1, "service-not-started-exactly-once")
		if svcs[i].outcome == vc11blocks {
			vf.Assert(!svcs[i].ended, "blocking-service-ended-while-the-orchestrator-runs")
		}
	}
	cancel()
	werr := orc.Wait()
	vf.Reach("orchestrator-waited")
	for i := 0; i < n; i++ {
		svcs[i].check(werr, i)
	}
	vf.Quiesce()
	vf.Assert(vf.Live() == 0, "goroutine-left-behind")
}

func VC11_Group() {
	ctx, cancel := context.WithCancel(context.Background())
	defer cancel()
	n := vf.Range("members", 1, 2)
	svcs := make([]*vc11svc, n)
	list := make([]*Service, n)
	for i := 0; i < n; i++ {
		svcs[i] = vc11service(i, vf.Choice("outcome", 4))
		list[i] = svcs[i].s
	}
	g := Group(fun.SliceIterator(list))
	vf.Assert(g.Start(ctx) == nil, "group-start-failed")
	vf.Quiesce()
	vf.Reach("group-running")
	for i := 0; i < n; i++ {
		vf.Assert(svcs[i].runs == 1, "service-not-started-exactly-once")
		if svcs[i].outcome == vc11blocks {
			vf.Assert(!svcs[i].ended, "group-stopped-a-member-that-was-still-running")
		}
	}
	cancel()
	werr := g.Wait()
	vf.Reach("group-waited")
	for i := 0; i < n; i++ {
		svcs[i].check(werr, i)
	}
	vf.Quiesce()
	vf.Assert(vf.Live() == 0, "goroutine-left-behind")
}

type vc11job struct {
	outcome int
	runs    int
}

func (j *vc11job) worker(i int) fun.Worker {
	return func(context.Context) error {
		j.runs++
		switch j.outcome {
		case vc11err:
			return vc11Errs[i]
		case vc11panic:
			panic(vc11Errs[i])
		case vc11eof:
			return io.EOF
		case vc11canceled:
			return context.Canceled
		}
		return nil
	}
}

func VC11_WorkerPool() {
	ctx, cancel := context.WithCancel(context.Background())
	defer cancel()
	withHandler := vf.Choice("handler-pool", 2) == 1
	size := vf.Range("pool-size", 1, 2)
	n := vf.Range("jobs", 1, 2)
	q := pubsub.NewUnlimitedQueue[fun.Worker]()
	jobs := make([]*vc11job, n)
	late := make([]bool, n)
	for i := 0; i < n; i++ {
		jobs[i] = &vc11job{outcome: vf.Choice("outcome", 3)}
		late[i] = vf.Choice("added-after-start", 2) == 1
		if !late[i] {
			vf.Assert(q.Add(jobs[i].worker(i)) == nil, "queue-add-failed")
		}
	}
	var seen []error
	opts := []fun.OptionProvider[*fun.WorkerGroupConf]{fun.WorkerGroupConfNumWorkers(size), fun.WorkerGroupConfContinueOnError(), fun.WorkerGroupConfContinueOnPanic()}
	var s *Service
	if withHandler {
		s = HandlerWorkerPool(q, fun.Handler[error](func(err error) {
			if err != nil {
				seen = append(seen, err)
			}
		}).Lock(), opts...)
	} else {
		s = WorkerPool(q, opts...)
	}
	vf.Assert(s.Start(ctx) == nil, "pool-start-failed")
	for i := 0; i < n; i++ {
		if late[i] {
			vf.Assert(q.Add(jobs[i].worker(i)) == nil, "queue-add-failed")
		}
	}
	vf.Quiesce()
	vf.Reach("pool-running")
	for i := 0; i < n; i++ {
		vf.Assert(jobs[i].runs == 1, "accepted-job-not-run-exactly-once-while-the-pool-runs")
	}
	s.Close()
	werr := s.Wait()
	vf.Reach("pool-waited")
	for i := 0; i < n; i++ {
		vf.Assert(jobs[i].runs == 1, "job-run-again-during-shutdown")
		if jobs[i].outcome == vc11err || jobs[i].outcome == vc11panic {
			found := werr != nil && errors.Is(werr, vc11Errs[i])
			for _, e := range seen {
				if errors.Is(e, vc11Errs[i]) {
					found = true
				}
			}
			vf.Assert(found, "job-failure-not-surfaced-through-wait-or-the-handler")
		}
	}
	vf.Quiesce()
	vf.Assert(vf.Live() == 0, "goroutine-left-behind")
}

func VC11_Cleanup() {
	ctx, cancel := context.WithCancel(context.Background())
	defer cancel()
	n := vf.Range("cleanups", 1, 2)
	q := pubsub.NewUnlimitedQueue[fun.Worker]()
	jobs := make([]*vc11job, n)
	late := make([]bool, n)
	s := Cleanup(q, 0)
	for i := 0; i < n; i++ {
		jobs[i] = &vc11job{outcome: []int{vc11ok, vc11err, vc11panic, vc11eof, vc11canceled}[vf.Choice("outcome", 5)]}
		late[i] = vf.Choice("added-after-start", 2) == 1
		if !late[i] {
			vf.Assert(q.Add(jobs[i].worker(i)) == nil, "queue-add-failed")
		}
	}
	vf.Assert(s.Start(ctx) == nil, "cleanup-service-start-failed")
	for i := 0; i < n; i++ {
		if late[i] {
			vf.Assert(q.Add(jobs[i].worker(i)) == nil, "queue-add-failed")
		}
	}
	vf.Quiesce()
	vf.Reach("cleanup-service-running")
	for i := 0; i < n; i++ {
		vf.Assert(jobs[i].runs == 0, "cleanup-function-ran-before-shutdown")
	}
	s.Close()
	werr := s.Wait()
	vf.Reach("cleanup-service-waited")
	for i := 0; i < n; i++ {
		vf.Assert(jobs[i].runs == 1, "accepted-cleanup-function-not-run-exactly-once")
		switch jobs[i].outcome {
		case vc11err, vc11panic:
			vf.Assert(werr != nil && errors.Is(werr, vc11Errs[i]), "cleanup-failure-not-surfaced-through-wait")
		case vc11eof:
			vf.Assert(werr != nil && errors.Is(werr, io.EOF), "cleanup-failure-not-surfaced-through-wait")
		case vc11canceled:
			vf.Assert(werr != nil && errors.Is(werr, context.Canceled), "cleanup-failure-not-surfaced-through-wait")
		}
	}
	vf.Quiesce()
	vf.Assert(vf.Live() == 0, "goroutine-left-behind")
}

// Services queued when the orchestrator's context ends: they were added
// before the cancellation, so finished ones are still awaited (their failure
// is in Wait's result) and no service is started twice or left running.
func VC11_OrchestratorCancelRace() {
	ctx, cancel := context.WithCancel(context.Background())
	defer cancel()
	orc := &Orchestrator{}
	n := vf.Range("services", 1, 2)
	svcs := make([]*vc11svc, n)
	for i := 0; i < n; i++ {
		finished := vf.Choice("already-finished", 2) == 1
		outcome := vc11ok
		if vf.Choice("fails", 2) == 1 {
			outcome = vc11err
		}
		svcs[i] = vc11service(i, outcome)
		if finished {
			svcs[i].state = 2
			vf.Assert(svcs[i].s.Start(ctx) == nil, "member-start-failed")
			_ = svcs[i].s.Wait()
		}
		vf.Assert(orc.Add(svcs[i].s) == nil, "orchestrator-add-failed")
	}
	cancelFirst := vf.Choice("cancel-before-start", 2) == 1
	if cancelFirst {
		cancel()
	}
	vf.Assert(orc.Start(ctx) == nil, "orchestrator-start-failed")
	cancel()
	werr := orc.Wait()
	vf.Reach("cancel-race-waited")
	for i := 0; i < n; i++ {
		vf.Assert(svcs[i].runs <= 1, "service-started-more-than-once")
		if svcs[i].runs == 1 {
			vf.Assert(svcs[i].ended, "wait-returned-before-a-service-returned")
		}
		if svcs[i].state == 2 && svcs[i].outcome == vc11err {
			vf.Assert(werr != nil && errors.Is(werr, vc11Errs[i]), "wait-result-lacks-the-failure-of-a-finished-service")
		}
	}
	vf.Quiesce()
	vf.Assert(vf.Live() == 0, "goroutine-left-behind")
}
