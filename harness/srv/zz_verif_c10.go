package srv

import (
	"context"
	"errors"
	"sync"

	"github.com/tychoish/fun"
)

// C10: srv.Service lifecycle.

var (
	vc10ERun      = errors.New("vc10: run failed")
	vc10EShutdown = errors.New("vc10: shutdown failed")
	vc10ECleanup  = errors.New("vc10: cleanup failed")
)

const (
	vc10absent = iota
	vc10ok
	vc10err
	vc10panic
)

type vc10phase struct {
	calls      int
	start, end int // logical stamps
}

type vc10log struct {
	run, shutdown, cleanup, handler vc10phase
	ctxEndedAtShutdown              bool
	handlerErr                      error
}

func (p *vc10phase) enter() { p.calls++; p.start = vf.Stamp() }
func (p *vc10phase) leave() { p.end = vf.Stamp() }

// build makes a service whose phases behave as selected. runKind: vc10ok =
// returns nil at once, vc10err / vc10panic likewise, vc10absent = blocks until
// the service context ends.
func vc10build(l *vc10log, runKind, shKind, clKind int, withHandler bool) *Service {
	s := &Service{Name: "vc10"}
	var svcCtx context.Context
	var mu sync.Mutex // the harness's own guard for svcCtx (Run and Shutdown are different goroutines)
	s.Run = func(ctx context.Context) error {
		l.run.enter()
		mu.Lock()
		svcCtx = ctx
		mu.Unlock()
		defer l.run.leave()
		switch runKind {
		case vc10absent:
			<-ctx.Done()
			return nil
		case vc10err:
			return vc10ERun
		case vc10panic:
			panic(vc10ERun)
		}
		return nil
	}
	if shKind != vc10absent {
		s.Shutdown = func() error {
			l.shutdown.enter()
			mu.Lock()
			l.ctxEndedAtShutdown = svcCtx == nil || svcCtx.Err() != nil
			mu.Unlock()
			defer l.shutdown.leave()
			switch shKind {
			case vc10err:
				return vc10EShutdown
			case vc10panic:
				panic(vc10EShutdown)
			}
			return nil
		}
	}
	if clKind != vc10absent {
		s.Cleanup = func() error {
			l.cleanup.enter()
			defer l.cleanup.leave()
			switch clKind {
			case vc10err:
				return vc10ECleanup
			case vc10panic:
				panic(vc10ECleanup)
			}
			return nil
		}
	}
	if withHandler {
		s.ErrorHandler.Set(func(err error) {
			l.handler.enter()
			l.handlerErr = err
			l.handler.leave()
		})
	}
	return s
}

func vc10check(l *vc10log, s *Service, werr error, runKind, shKind, clKind int, withHandler bool) {
	vf.Assert(l.run.calls == 1, "run-not-invoked-exactly-once")
	if shKind != vc10absent {
		vf.Assert(l.shutdown.calls == 1, "shutdown-not-invoked-exactly-once")
		vf.Assert(l.ctxEndedAtShutdown, "shutdown-ran-before-the-service-context-ended")
		vf.Assert(l.shutdown.end != 0, "wait-returned-before-shutdown-returned")
	}
	vf.Assert(l.run.end != 0, "wait-returned-before-run-returned")
	if clKind != vc10absent {
		vf.Assert(l.cleanup.calls == 1, "cleanup-not-invoked-exactly-once")
		vf.Assert(l.cleanup.end != 0, "wait-returned-before-cleanup-returned")
		vf.Assert(l.cleanup.start > l.run.end, "cleanup-started-before-run-returned")
		if shKind != vc10absent {
			vf.Assert(l.cleanup.start > l.shutdown.end, "cleanup-started-before-shutdown-returned")
		}
	}
	wantErr := runKind == vc10err || runKind == vc10panic || shKind == vc10err || shKind == vc10panic || clKind == vc10err || clKind == vc10panic
	wantPanic := runKind == vc10panic || shKind == vc10panic || clKind == vc10panic
	vf.Assert((werr != nil) == wantErr, "wait-result-nil-iff-no-phase-failed")
	if werr != nil {
		if runKind == vc10err || runKind == vc10panic {
			vf.Assert(errors.Is(werr, vc10ERun), "wait-result-lacks-the-run-error")
		}
		if shKind == vc10err || shKind == vc10panic {
			vf.Assert(errors.Is(werr, vc10EShutdown), "wait-result-lacks-the-shutdown-error")
		}
		if clKind == vc10err || clKind == vc10panic {
			vf.Assert(errors.Is(werr, vc10ECleanup), "wait-result-lacks-the-cleanup-error")
		}
		vf.Assert(errors.Is(werr, fun.ErrRecoveredPanic) == wantPanic, "wait-result-ErrRecoveredPanic-iff-a-phase-panicked")
	}
	// Wait does not wait for the error handler: look at it at quiescence
	vf.Quiesce()
	if withHandler {
		vf.Assert(l.handler.calls <= 1, "error-handler-ran-more-than-once")
		if wantErr {
			vf.Assert(l.handler.calls == 1, "error-handler-not-run-although-a-phase-failed")
		} else {
			vf.Assert(l.handler.calls == 0, "error-handler-ran-without-an-error")
		}
		if l.handler.calls == 1 {
			vf.Assert(l.handlerErr != nil, "error-handler-got-a-nil-aggregate")
			if clKind != vc10absent {
				vf.Assert(l.handler.start > l.cleanup.end, "error-handler-ran-before-cleanup-returned")
			}
		}
	}
	vf.Assert(!s.Running(), "running-true-after-wait-returned")
}

// every phase outcome x every way of ending; one starter
func VC10_Phases() {
	runKind := vf.Choice("run", 4)
	shKind := vf.Choice("shutdown", 4)
	clKind := vf.Choice("cleanup", 4)
	withHandler := vf.Choice("handler", 2) == 1
	l := &vc10log{}
	s := vc10build(l, runKind, shKind, clKind, withHandler)
	ctx, cancel := context.WithCancel(context.Background())
	defer cancel()
	vf.Assert(s.Start(ctx) == nil, "first-start-failed")
	vf.Reach("started")
	if runKind == vc10absent {
		// Run blocks: end the service
		if vf.Choice("end-by-cancel", 2) == 1 {
			cancel()
		} else {
			s.Close()
		}
	}
	werr := s.Wait()
	vf.Reach("waited")
	vc10check(l, s, werr, runKind, shKind, clKind, withHandler)
	// late calls
	vf.Assert(errors.Is(s.Start(ctx), ErrServiceReturned), "start-after-finish-not-ErrServiceReturned")
	w2 := s.Wait()
	vf.Assert((w2 != nil) == (werr != nil), "second-wait-differs")
	s.Close()
	vf.Quiesce()
	vf.Assert(vf.Live() == 0, "service-goroutine-left-behind")
}

// concurrent Start / Close / Wait callers
func VC10_Concurrent() {
	runKind := vf.Choice("run", 2) // 0 blocks until the context ends, 1 returns at once
	if runKind == 1 {
		runKind = vc10ok
	}
	l := &vc10log{}
	s := vc10build(l, runKind, vc10ok, vc10ok, false)
	ctx, cancel := context.WithCancel(context.Background())
	defer cancel()
	nStart := 2
	if vf.Thorough() {
		nStart = 3
	}
	startErr := make([]error, nStart)
	startRet := make([]bool, nStart)
	for i := 0; i < nStart; i++ {
		i := i
		vf.Go(func() { startErr[i] = s.Start(ctx); startRet[i] = true })
	}
	extra := vf.Choice("extra", 3)
	var earlyWait error
	waited := false
	switch extra {
	case 1:
		vf.Go(func() { s.Close() })
	case 2:
		vf.Go(func() { earlyWait = s.Wait(); waited = true })
	}
	vf.Quiesce()
	vf.Reach("concurrent-quiescent")
	nilStarts := 0
	for i := 0; i < nStart; i++ {
		vf.Assert(startRet[i], "start-did-not-return")
		if startErr[i] == nil {
			nilStarts++
		} else {
			vf.Assert(errors.Is(startErr[i], ErrServiceAlreadyStarted) || errors.Is(startErr[i], ErrServiceReturned), "start-returned-an-unexpected-error")
		}
	}
	vf.Assert(nilStarts == 1, "not-exactly-one-start-returned-nil")
	vf.Assert(l.run.calls <= 1, "run-invoked-more-than-once")
	// end it and wait
	s.Close()
	cancel()
	werr := s.Wait()
	vf.Assert(werr == nil, "wait-reported-an-error-although-no-phase-failed")
	vf.Assert(l.run.calls == 1 && l.run.end != 0, "wait-returned-before-run-returned")
	vf.Assert(l.shutdown.calls == 1 && l.shutdown.end != 0, "shutdown-not-invoked-exactly-once")
	vf.Assert(l.cleanup.calls == 1 && l.cleanup.end != 0, "cleanup-not-invoked-exactly-once")
	vf.Assert(!s.Running(), "running-true-after-wait-returned")
	vf.Quiesce()
	if waited && earlyWait != nil {
		vf.Assert(errors.Is(earlyWait, ErrServiceNotStarted), "early-wait-returned-an-unexpected-error")
	}
	vf.Quiesce()
	vf.Assert(vf.Live() == 0, "service-goroutine-left-behind")
}
