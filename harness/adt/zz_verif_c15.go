package adt

// C15 (adt part): adt.Once and Mnemonize under concurrent callers.
func VC15_AdtOnce() {
	kind := vf.Choice("kind", 4)
	mx := 2
	if vf.Thorough() {
		mx = 3
	}
	c := vf.Range("callers", 1, mx)
	count := 0
	finished := false
	val := vf.Int("result")
	body := func() int {
		count++
		vf.Yield()
		finished = true
		return val
	}
	var call func() int
	switch kind {
	case 0:
		f := Mnemonize(body)
		call = f
	case 1:
		o := NewOnce(body)
		call = o.Resolve
	case 2:
		o := &Once[int]{}
		call = func() int { o.Do(body); return o.Resolve() }
	case 3:
		o := &Once[int]{}
		o.Set(body)
		call = o.Resolve
	}
	returned := make([]bool, c)
	for i := 0; i < c; i++ {
		i := i
		vf.Go(func() {
			v := call()
			vf.Assert(finished, "once-caller-returned-before-the-execution-finished")
			vf.Assert(v == val, "once-caller-did-not-observe-the-result")
			returned[i] = true
		})
	}
	vf.Quiesce()
	vf.Reach("adt-once-quiescent")
	for i := 0; i < c; i++ {
		vf.Assert(returned[i], "once-caller-never-returned")
	}
	vf.Assert(count == 1, "once-wrapped-function-did-not-run-exactly-once")
}
