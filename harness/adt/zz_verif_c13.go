package adt

import "context"

func vc13pick(n int) []int {
	a := vf.Choice("a", n)
	b := vf.Choice("b", n)
	if b < a {
		vf.Assume(false)
	}
	if vf.Thorough() {
		c := vf.Choice("c", n)
		if c < b {
			vf.Assume(false)
		}
		return []int{a, b, c}
	}
	return []int{a, b}
}

func VC13_Map() {
	mp := &Map[int, int]{}
	if vf.Choice("prefilled", 2) == 1 {
		mp.Store(1, 10)
	}
	ctx := context.Background()
	ops := []func(){
		func() { mp.Store(1, vf.Int("v")) },
		func() { mp.Delete(1) },
		func() { _, _ = mp.Load(1) },
		func() { _ = mp.Get(2) },
		func() { _ = mp.Check(1) },
		func() { _ = mp.EnsureStore(2, 5) },
		func() { mp.Ensure(3) },
		func() { _ = mp.Len() },
		func() { mp.Range(func(k, v int) bool { return true }) },
		func() {
			it := mp.Iterator()
			for i := 0; i < 3 && it.Next(ctx); i++ {
				_ = it.Value()
			}
			_ = it.Close()
		},
		func() {
			it := mp.Keys()
			if it.Next(ctx) {
				_ = it.Value()
			}
			_ = it.Close()
		},
	}
	for _, i := range vc13pick(len(ops)) {
		vf.Go(ops[i])
	}
	vf.Quiesce()
	vf.Reach("map-pairs")
}

func VC13_Atomic() {
	a := NewAtomic(1)
	ops := []func(){
		func() { a.Set(vf.Int("v")) },
		func() { _ = a.Get() },
		func() { _ = a.Swap(3) },
		func() { _ = CompareAndSwap[int](a, 1, 2) },
		func() { SafeSet[int](a, 4) },
	}
	for _, i := range vc13pick(len(ops)) {
		vf.Go(ops[i])
	}
	vf.Quiesce()
	vf.Reach("atomic-pairs")
}

func VC13_Synchronized() {
	s := NewSynchronized(1)
	seen := 0
	ops := []func(){
		func() { s.Set(vf.Int("v")) },
		func() { _ = s.Get() },
		func() { _ = s.Swap(3) },
		func() { s.With(func(v int) { seen = v }) },
		func() { s.Using(func() { seen++ }) },
	}
	for _, i := range vc13pick(len(ops)) {
		vf.Go(ops[i])
	}
	vf.Quiesce()
	vf.Reach("synchronized-pairs")
}

func VC13_Once() {
	o := &Once[int]{}
	if vf.Choice("predefined", 2) == 1 {
		o = NewOnce(func() int { return 7 })
	}
	shared := 0
	ops := []func(){
		func() { o.Do(func() int { shared++; return 1 }) },
		func() { _ = o.Resolve() },
		func() { o.Set(func() int { shared++; return 2 }) },
		func() { _ = o.Called() },
		func() { _ = o.Defined() },
	}
	for _, i := range vc13pick(len(ops)) {
		vf.Go(ops[i])
	}
	vf.Quiesce()
	vf.Reach("once-pairs")
}

func VC13_Pool() {
	p := &Pool[*int]{}
	p.SetConstructor(func() *int { return new(int) })
	if vf.Choice("finalized", 2) == 1 {
		p.FinalizeSetup()
	}
	ops := []func(){
		func() { v := p.Get(); *v = 1; p.Put(v) },
		func() { v := p.Make(); *v = 2; p.Put(v) },
		func() { p.SetCleanupHook(func(in *int) *int { *in = 0; return in }) },
		func() { p.SetConstructor(func() *int { return new(int) }) },
		func() { p.FinalizeSetup() },
	}
	for _, i := range vc13pick(len(ops)) {
		i := i
		vf.Go(func() {
			defer func() { _ = recover() }() // configuration after FinalizeSetup panics by design
			ops[i]()
		})
	}
	vf.Quiesce()
	vf.Reach("pool-pairs")
}
