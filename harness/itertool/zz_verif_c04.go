package itertool

import (
	"context"
	"io"
	"sync"

	"github.com/tychoish/fun"
	"github.com/tychoish/fun/adt"
	"github.com/tychoish/fun/dt"
)

// C04: every construct x cut point x stop mode; at quiescence no goroutine
// started on behalf of the iterator is alive.

const (
	vc04Split = iota
	vc04Buffer
	vc04ParallelBuffer
	vc04Map
	vc04GenerateParallel
	vc04Merge
	vc04Chain
	vc04MergeSlices
	vc04MergeSliceIterators
	vc04DtMap
	vc04AdtMap
	vc04nConstructs
)

const (
	vc04exhaust = iota
	vc04close
	vc04cancel
	vc04closeThenCancel
	vc04nStops
)

func vc04ints(n int) []int {
	out := make([]int, n)
	for i := range out {
		out[i] = i + 1
	}
	return out
}

// build returns the output iterator of the construct over n items (the
// actual number of distinct outputs may differ for the map iterators)
func vc04build(kind, n int) *fun.Iterator[int] {
	in := vc04ints(n)
	w := 2
	switch kind {
	case vc04Split:
		return fun.SliceIterator(in).Split(1)[0]
	case vc04Buffer:
		return fun.SliceIterator(in).Buffer(vf.Range("buffer", 0, 1))
	case vc04ParallelBuffer:
		return fun.SliceIterator(in).ParallelBuffer(w)
	case vc04Map:
		return fun.Converter(func(x int) int { return x }).ProcessParallel(fun.SliceIterator(in), fun.WorkerGroupConfNumWorkers(w))
	case vc04GenerateParallel:
		var mu sync.Mutex
		next := 0
		return fun.Producer[int](func(context.Context) (int, error) {
			mu.Lock()
			defer mu.Unlock()
			if next >= n {
				return 0, io.EOF
			}
			next++
			return next, nil
		}).GenerateParallel(fun.WorkerGroupConfNumWorkers(w))
	case vc04Merge:
		k := n / 2
		return fun.MergeIterators(fun.SliceIterator(in[:k]), fun.SliceIterator(in[k:]))
	case vc04Chain:
		k := n / 2
		return Chain(fun.SliceIterator(in[:k]), fun.SliceIterator(in[k:]))
	case vc04MergeSlices:
		k := n / 2
		return MergeSlices(in[:k], in[k:])
	case vc04MergeSliceIterators:
		k := n / 2
		return MergeSliceIterators(fun.SliceIterator([][]int{in[:k], in[k:]}))
	case vc04DtMap:
		m := dt.Map[int, int]{}
		for _, x := range in {
			m[x] = x
		}
		if vf.Choice("keys", 2) == 1 {
			return m.Keys()
		}
		return m.Values()
	case vc04AdtMap:
		m := &adt.Map[int, int]{}
		for _, x := range in {
			m.Store(x, x)
		}
		if vf.Choice("keys", 2) == 1 {
			return m.Keys()
		}
		return m.Values()
	}
	return nil
}

func VC04_Stop() {
	kind := vf.Choice("construct", vc04nConstructs)
	n := vf.Range("items", 0, 2)
	if vf.Thorough() {
		n = vf.Range("items3", 0, 3)
	}
	cut := vf.Range("consume", 0, n)
	stop := vf.Choice("stop", vc04nStops)
	if stop == vc04exhaust {
		cut = n
	}
	ctx, cancel := context.WithCancel(context.Background())
	it := vc04build(kind, n)
	got := 0
	for i := 0; i < cut; i++ {
		if _, err := it.ReadOne(ctx); err != nil {
			break
		}
		got++
	}
	vf.Assert(got == cut, "finite-input-ended-early")
	switch stop {
	case vc04exhaust:
		_, err := it.ReadOne(ctx)
		vf.Assert(err != nil, "finite-input-yielded-more-than-it-holds")
		// exhaustion alone must let the workers go; Close afterwards is allowed and idempotent
	case vc04close:
		_ = it.Close()
		_ = it.Close()
	case vc04cancel:
		cancel()
	case vc04closeThenCancel:
		_ = it.Close()
		cancel()
		_ = it.Close()
	}
	vf.Reach("stopped")
	vf.Quiesce()
	if vf.Live() != 0 {
		vf.Note(vf.LiveInfo())
	}
	vf.Assert(vf.Live() == 0, "goroutine-left-behind-after-the-consumer-stopped")
	// nothing further comes out
	_, err := it.ReadOne(ctx)
	vf.Assert(err != nil, "iterator-yielded-after-it-was-stopped")
	cancel()
}

// A consumer parked in ReadOne returns when another goroutine closes the
// iterator or cancels the context.
func VC04_ParkedConsumer() {
	byCancel := vf.Choice("by-cancel", 2) == 1
	kind := vf.Choice("construct", 4)
	ctx, cancel := context.WithCancel(context.Background())
	src := make(chan int) // never fed: the consumer parks
	var it *fun.Iterator[int]
	switch kind {
	case 0:
		it = fun.ChannelIterator(src).Buffer(1)
	case 1:
		it = fun.ChannelIterator(src).Split(1)[0]
	case 2:
		it = fun.Converter(func(x int) int { return x }).ProcessParallel(fun.ChannelIterator(src), fun.WorkerGroupConfNumWorkers(2))
	case 3:
		it = fun.MergeIterators(fun.ChannelIterator(src))
	}
	returned := false
	vf.Go(func() { _, _ = it.ReadOne(ctx); returned = true })
	vf.Go(func() {
		if byCancel {
			cancel()
		} else {
			_ = it.Close()
		}
	})
	vf.Quiesce()
	vf.Reach("parked-consumer-quiescent")
	vf.Assert(returned, "consumer-still-blocked-after-close-or-cancellation")
	cancel()
	vf.Quiesce()
	vf.Assert(vf.Live() == 0, "goroutine-left-behind-after-the-consumer-stopped")
}

// Split with several outputs: one is abandoned, the others are closed.
func VC04_SplitAbandon() {
	n := vf.Range("items", 1, 3)
	ctx := context.Background()
	outs := fun.SliceIterator(vc04ints(n)).Split(2)
	first := vf.Choice("advance-first", 2)
	// consume some items through one output, then abandon it
	k := vf.Range("consume", 0, 1)
	for i := 0; i < k; i++ {
		_, _ = outs[first].ReadOne(ctx)
	}
	// the other output is closed (documented way to stop)
	_ = outs[1-first].Close()
	closedBoth := vf.Choice("close-abandoned-too", 2) == 1
	if closedBoth {
		_ = outs[first].Close()
	}
	vf.Reach("split-abandoned")
	vf.Quiesce()
	if vf.Live() != 0 {
		vf.Note(vf.LiveInfo())
	}
	switch {
	case k > 0 && !closedBoth && vf.Live() != 0:
		// the reader runs under the context of the output that advanced
		// first; abandoning that one and closing the other leaves it parked
		vf.Assert(false, "split-reader-left-behind@the-abandoned-output-had-advanced")
	default:
		vf.Assert(vf.Live() == 0, "split-reader-left-behind")
	}
}

// Several senders sharing one buffered channel (ParallelBuffer, GenerateParallel):
// more items than buffer slots, the consumer stops early.
func VC04_SharedBuffer() {
	kind := vc04ParallelBuffer
	if vf.Choice("generate", 2) == 1 {
		kind = vc04GenerateParallel
	}
	n := vf.Range("items", 3, 4)
	cut := vf.Range("consume", 0, 1)
	stop := vc04close + vf.Choice("stop", 3)
	ctx, cancel := context.WithCancel(context.Background())
	it := vc04build(kind, n)
	for i := 0; i < cut; i++ {
		_, _ = it.ReadOne(ctx)
	}
	switch stop {
	case vc04close:
		_ = it.Close()
	case vc04cancel:
		cancel()
	case vc04closeThenCancel:
		_ = it.Close()
		cancel()
	}
	vf.Reach("shared-buffer-stopped")
	vf.Quiesce()
	if vf.Live() != 0 {
		vf.Note(vf.LiveInfo())
	}
	vf.Assert(vf.Live() == 0, "goroutine-left-behind-after-the-consumer-stopped")
	cancel()
}
