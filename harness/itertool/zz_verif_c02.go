package itertool

import (
	"context"
	"errors"
	"io"

	"github.com/tychoish/fun"
	"github.com/tychoish/fun/dt"
	"github.com/tychoish/fun/ers"
)

// C02: order-preserving pipelines against pure slice functions.

type vc02m struct {
	it      *fun.Iterator[int]
	want    []int // the sequence the pure functions give
	faulted bool  // a user function returned a non-skip error: nothing follows
	shape   string
}

func vc02vals(name string, n int) []int {
	out := make([]int, n)
	for i := range out {
		out[i] = vf.Int(name)
	}
	return out
}

var vc02plain = errors.New("vc02: user function failed")

// source builds the first iterator from a symbolic slice through one of the
// source constructors / container conversions.
func vc02source(maxLen int) *vc02m {
	n := vf.Range("len", 0, maxLen)
	in := vc02vals("x", n)
	m := &vc02m{want: append([]int(nil), in...)}
	switch vf.Choice("source", 9) {
	case 0:
		m.it = fun.SliceIterator(in)
		m.shape = "Slice"
	case 1:
		m.it = fun.VariadicIterator(in...)
		m.shape = "Variadic"
	case 2:
		idx := 0
		m.it = fun.Generator(func(context.Context) (int, error) {
			if idx >= len(in) {
				return 0, io.EOF
			}
			idx++
			return in[idx-1], nil
		})
		m.shape = "Generator"
	case 3:
		ch := make(chan int, len(in))
		for _, v := range in {
			ch <- v
		}
		close(ch)
		m.it = fun.ChannelIterator(ch)
		m.shape = "Channel"
	case 4:
		m.it = dt.NewSlice(in).Iterator()
		m.shape = "dt.Slice"
	case 5:
		l := &dt.List[int]{}
		for _, v := range in {
			l.PushBack(v)
		}
		m.it = l.Iterator()
		m.shape = "List"
	case 6:
		l := &dt.List[int]{}
		for _, v := range in {
			l.PushBack(v)
		}
		m.it = l.PopIterator()
		m.shape = "List.Pop"
	case 7:
		// a stack iterates most recent first
		s := &dt.Stack[int]{}
		for i := len(in) - 1; i >= 0; i-- {
			s.Push(in[i])
		}
		m.it = s.Iterator()
		m.shape = "Stack"
	case 8:
		// two slices flattened
		k := vf.Range("cut", 0, n)
		if vf.Choice("flatten", 2) == 0 {
			m.it = MergeSlices(in[:k], in[k:])
			m.shape = "MergeSlices"
		} else {
			m.it = MergeSliceIterators(fun.SliceIterator([][]int{in[:k], in[k:]}))
			m.shape = "MergeSliceIterators"
		}
	}
	return m
}

// stage applies one more operator to the iterator and the same pure function
// to the model.
func (m *vc02m) stage() { m.stageK(vf.Choice("stage", 10)) }

func (m *vc02m) stageK(k int) {
	ctx := context.Background()
	switch k {
	case 0: // Filter(x < t)
		t := vf.Int("t")
		m.it = m.it.Filter(func(x int) bool { return x < t })
		var w []int
		for _, x := range m.want {
			if x < t {
				w = append(w, x)
			}
		}
		m.want = w
		m.shape += ">Filter"
	case 1: // Transform(x+c), with an injected skip or error at position p
		c := vf.Int("c")
		kind := vf.Choice("fault", 5)
		p := -1
		if kind != 0 {
			p = vf.Range("fault-at", 0, len(m.want))
		}
		idx := -1
		m.it = m.it.Transform(fun.ConverterErr(func(x int) (int, error) {
			idx++
			if idx == p {
				switch kind {
				case 1:
					return 0, fun.ErrIteratorSkip
				case 2:
					return 0, vc02plain
				case 3:
					return 0, io.EOF
				case 4:
					return 0, ers.ErrCurrentOpAbort
				}
			}
			return x + c, nil
		}))
		var w []int
		for i, x := range m.want {
			if i == p {
				if kind == 1 {
					continue
				}
				m.faulted = true
				break
			}
			w = append(w, x+c)
		}
		m.want = w
		m.shape += ">Transform"
		if kind != 0 {
			m.shape += "[fault]"
		}
	case 2, 3: // Join / Chain with a second source
		if m.faulted {
			vf.Assume(false)
		}
		k := vf.Range("len2", 0, 2)
		in2 := vc02vals("y", k)
		// a third operand (possibly after an empty second one)
		k3 := vf.Range("len3", 0, 1)
		in3 := vc02vals("z", k3)
		if vf.Choice("chain", 2) == 0 {
			m.it = m.it.Join(fun.SliceIterator(in2), fun.SliceIterator(in3))
			m.shape += ">Join"
		} else {
			m.it = Chain(m.it, fun.SliceIterator(in2), fun.SliceIterator(in3))
			m.shape += ">Chain"
		}
		m.want = append(append(append([]int(nil), m.want...), in2...), in3...)
	case 4: // Uniq: first occurrence of each value
		m.it = Uniq(m.it)
		var w []int
		for _, x := range m.want {
			dup := false
			for _, y := range w {
				if x == y {
					dup = true
				}
			}
			if !dup {
				w = append(w, x)
			}
		}
		m.want = w
		m.shape += ">Uniq"
	case 5: // DropZeroValues
		m.it = DropZeroValues(m.it)
		var w []int
		for _, x := range m.want {
			if x != 0 {
				w = append(w, x)
			}
		}
		m.want = w
		m.shape += ">DropZero"
	case 6: // Buffer(n): identity
		m.it = m.it.Buffer(vf.Range("buffer", 0, 2))
		m.shape += ">Buffer"
	case 7: // Split(1): identity
		m.it = m.it.Split(1)[0]
		m.shape += ">Split1"
	case 8: // through a channel and back: identity
		if vf.Choice("buffered", 2) == 1 {
			m.it = fun.ChannelIterator(m.it.BufferedChannel(ctx, 1))
		} else {
			m.it = fun.ChannelIterator(m.it.Channel(ctx))
		}
		m.shape += ">Channel"
	case 9: // into a list and back: identity
		l, err := dt.NewListFromIterator(ctx, m.it)
		if m.faulted {
			// the conversion stops at the fault
			_ = err
		}
		m.it = l.Iterator()
		m.shape += ">List"
	}
}

func (m *vc02m) finish(nsinks int) {
	ctx := context.Background()
	vf.Notef("pipeline: %s", m.shape)
	n := len(m.want)
	switch vf.Choice("sink", nsinks) {
	case 0: // ReadOne until it fails; then it must keep failing
		cnt := 0
		for ; cnt <= n+1; cnt++ {
			v, err := m.it.ReadOne(ctx)
			if err != nil {
				break
			}
			if cnt < n {
				vf.Assert(v == m.want[cnt], "pipeline-output-differs-from-pure-functions")
			}
		}
		vf.Assert(cnt == n, "pipeline-length-differs-from-pure-functions")
		for k := 0; k < 2; k++ {
			_, err := m.it.ReadOne(ctx)
			vf.Assert(err != nil, "iterator-yielded-after-it-returned-an-error")
		}
		vf.Reach("readone")
	case 1: // Slice
		out, _ := m.it.Slice(ctx)
		vf.Assert(len(out) == n, "pipeline-length-differs-from-pure-functions")
		for i := 0; i < len(out) && i < n; i++ {
			vf.Assert(out[i] == m.want[i], "pipeline-output-differs-from-pure-functions")
		}
		vf.Reach("slice")
	case 2: // Count
		vf.Assert(m.it.Count(ctx) == n, "count-differs-from-pure-functions")
		vf.Reach("count")
	case 3: // Reduce: fold with +; a skipped element is left out of the fold
		skipAt := vf.Range("reduce-skips", 0, n) // == n: nothing skipped
		idx := -1
		sum, err := m.it.Reduce(func(in, acc int) (int, error) {
			idx++
			if idx == skipAt {
				return 0, fun.ErrIteratorSkip
			}
			return acc + in, nil
		})(ctx)
		want := 0
		for i, x := range m.want {
			if i != skipAt {
				want += x
			}
		}
		vf.Assert(err == nil, "reduce-failed")
		vf.Assert(sum == want, "reduce-differs-from-fold")
		vf.Reach("reduce")
	case 4: // Indexed: enumerate
		it := Indexed(m.it)
		cnt := 0
		for ; cnt <= n+1; cnt++ {
			p, err := it.ReadOne(ctx)
			if err != nil {
				break
			}
			if cnt < n {
				vf.Assert(p.Key == cnt, "indexed-key-differs-from-position")
				vf.Assert(p.Value == m.want[cnt], "pipeline-output-differs-from-pure-functions")
			}
		}
		vf.Assert(cnt == n, "pipeline-length-differs-from-pure-functions")
		vf.Reach("indexed")
	}
	_ = m.it.Close()
	vf.Quiesce()
}

// every source, every sink
func VC02_Sources() {
	m := vc02source(3)
	m.finish(5)
}

// slice source, one stage, every sink
func VC02_Stage() {
	n := vf.Range("len", 0, 3)
	in := vc02vals("x", n)
	m := &vc02m{it: fun.SliceIterator(in), want: append([]int(nil), in...), shape: "Slice"}
	m.stage()
	m.finish(5)
}

// slice source, two (thorough: up to three) stages, ReadOne/Slice sinks
func VC02_Tree() {
	// (three stages do not complete within the thorough budget - measured: more
	// than 35 min even over <=2 elements - so both tiers use two stages)
	n := vf.Range("len", 0, 3)
	in := vc02vals("x", n)
	m := &vc02m{it: fun.SliceIterator(in), want: append([]int(nil), in...), shape: "Slice"}
	d := 2
	for i := 0; i < d; i++ {
		m.stage()
	}
	m.finish(5)
}

