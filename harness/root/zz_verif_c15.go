package fun

import (
	"context"
	"errors"
	"io"
	"sync"

	"github.com/tychoish/fun/ers"
	"github.com/tychoish/fun/ft"
)

// C15: function wrappers.

type vc15err struct{ n int }

func (e *vc15err) Error() string { return "vc15" }

// ---------------------------------------------------------------- Once

// c concurrent callers of a Once-wrapped function: one execution, nobody
// returns before it finished, everybody sees its result.
func VC15_Once() {
	kind := vf.Choice("kind", 8)
	mx := 2
	if vf.Thorough() {
		mx = 3
	}
	c := vf.Range("callers", 1, mx)
	ctx := context.Background()
	count := 0
	finished := false
	val := vf.Int("result")
	e1 := &vc15err{1}
	body := func() {
		count++
		vf.Yield()
		finished = true
	}
	var call func() (int, error)
	switch kind {
	case 0:
		w := Worker(func(context.Context) error { body(); return e1 }).Once()
		call = func() (int, error) { return val, w(ctx) }
	case 1:
		o := Operation(func(context.Context) { body() }).Once()
		call = func() (int, error) { o(ctx); return val, e1 }
	case 2:
		p := Producer[int](func(context.Context) (int, error) { body(); return val, e1 }).Once()
		call = func() (int, error) { return p(ctx) }
	case 3:
		p := Processor[int](func(context.Context, int) error { body(); return e1 }).Once()
		call = func() (int, error) { return val, p(ctx, 7) }
	case 4:
		h := Handler[int](func(int) { body() }).Once()
		call = func() (int, error) { h(7); return val, e1 }
	case 5:
		f := Future[int](func() int { body(); return val }).Once()
		call = func() (int, error) { return f(), e1 }
	case 6:
		f := ft.Once(body)
		call = func() (int, error) { f(); return val, e1 }
	case 7:
		f := ft.OnceDo(func() int { body(); return val })
		call = func() (int, error) { return f(), e1 }
	}
	returned := make([]bool, c)
	for i := 0; i < c; i++ {
		i := i
		vf.Go(func() {
			v, err := call()
			vf.Assert(finished, "once-caller-returned-before-the-execution-finished")
			vf.Assert(v == val, "once-caller-did-not-observe-the-result")
			vf.Assert(err == error(e1), "once-caller-did-not-observe-the-error")
			returned[i] = true
		})
	}
	vf.Quiesce()
	vf.Reach("once-quiescent")
	for i := 0; i < c; i++ {
		vf.Assert(returned[i], "once-caller-never-returned")
	}
	vf.Assert(count == 1, "once-wrapped-function-did-not-run-exactly-once")
	// later sequential calls do not run it again
	v, err := call()
	vf.Assert(count == 1 && v == val && err == error(e1), "once-late-call")
}

// ---------------------------------------------------------------- Limit

// Sequential: Limit(n) with symbolic n, c calls, each execution returns a
// fresh symbolic value.
func VC15_LimitSeq() {
	kind := vf.Choice("kind", 5)
	n := vf.Int("n")
	vf.Assume(n >= 1)
	vf.Assume(n <= 4)
	c := vf.Range("calls", 1, 5)
	ctx := context.Background()
	execs := 0
	vals := make([]int, c+1)
	for i := range vals {
		vals[i] = vf.Int("val")
	}
	cur := func() int { v := vals[execs]; execs++; return v }
	var call func() int
	hasResult := true
	switch kind {
	case 0:
		f := Future[int](cur).Limit(n)
		call = func() int { return f() }
	case 1:
		p := Producer[int](func(context.Context) (int, error) { return cur(), nil }).Limit(n)
		call = func() int { v, _ := p(ctx); return v }
	case 2:
		var last int
		w := Worker(func(context.Context) error { last = cur(); return &vc15err{last} }).Limit(n)
		call = func() int { err := w(ctx); return err.(*vc15err).n }
	case 3:
		p := Processor[int](func(_ context.Context, in int) error { return &vc15err{cur() + in - in} }).Limit(n)
		call = func() int { err := p(ctx, 3); return err.(*vc15err).n }
	case 4:
		hasResult = false
		o := Operation(func(context.Context) { cur() }).Limit(n)
		call = func() int { o(ctx); return 0 }
	}
	for i := 0; i < c; i++ {
		got := call()
		// number of executions so far = min(n, i+1)
		vf.Assert(execs == vf.Ite(n < i+1, n, i+1), "limit-executions-differ-from-min-n-calls")
		if hasResult {
			// result = value of the most recent execution
			vf.Assert(got == vals[execs-1], "limit-did-not-return-the-last-result")
		}
	}
	vf.Reach("limit-seq-done")
}

// Concurrent: two goroutines x two calls.
func VC15_LimitConc() {
	kind := vf.Choice("kind", 3)
	n := vf.Int("n")
	vf.Assume(n >= 1)
	vf.Assume(n <= 3)
	ctx := context.Background()
	execs := 0
	inside := 0
	var mu sync.Mutex
	var call func() int
	body := func() int {
		mu.Lock()
		execs++
		v := execs
		mu.Unlock()
		return v
	}
	switch kind {
	case 0:
		f := Future[int](func() int {
			inside++
			vf.Assert(inside == 1, "limit-ran-two-executions-at-once")
			v := body()
			inside--
			return v
		}).Limit(n)
		call = func() int { return f() }
	case 1:
		o := Operation(func(context.Context) { body() }).Limit(n)
		call = func() int { o(ctx); return -1 }
	case 2:
		p := Producer[int](func(context.Context) (int, error) { return body(), nil }).Limit(n)
		call = func() int { v, _ := p(ctx); return v }
	}
	total := 0
	for g := 0; g < 2; g++ {
		vf.Go(func() {
			for k := 0; k < 2; k++ {
				v := call()
				if v != -1 {
					vf.Assert(v >= 1 && v <= 4, "limit-returned-a-value-no-execution-produced")
				}
				mu.Lock()
				total++
				mu.Unlock()
			}
		})
	}
	vf.Quiesce()
	vf.Reach("limit-conc-quiescent")
	vf.Assert(total == 4, "limit-caller-never-returned")
	vf.Assert(execs == vf.Ite(n < 4, n, 4), "limit-executions-differ-from-min-n-calls")
	if kind != 1 {
		v := call()
		vf.Assert(execs == vf.Ite(n < 5, n, 5), "limit-late-call-executions")
		// once the limit is exhausted the cached last result is returned
		if execs < 5 {
			vf.Assert(v == execs, "limit-did-not-return-the-last-result")
		}
	}
}

// ---------------------------------------------------------------- Lock

func VC15_Lock() {
	kind := vf.Choice("kind", 7)
	mx := 2
	if vf.Thorough() {
		mx = 3
	}
	c := vf.Range("callers", 2, mx)
	ctx := context.Background()
	inside := 0
	runs := 0
	body := func() {
		inside++
		vf.Assert(inside == 1, "lock-wrapped-function-ran-twice-at-once")
		vf.Yield()
		runs++
		inside--
	}
	shared := &sync.Mutex{}
	var call func(i int)
	switch kind {
	case 0:
		w := Worker(func(context.Context) error { body(); return nil }).Lock()
		call = func(int) { _ = w(ctx) }
	case 1:
		o := Operation(func(context.Context) { body() }).Lock()
		call = func(int) { o(ctx) }
	case 2:
		p := Producer[int](func(context.Context) (int, error) { body(); return 1, nil }).Lock()
		call = func(int) { _, _ = p(ctx) }
	case 3:
		p := Processor[int](func(context.Context, int) error { body(); return nil }).Lock()
		call = func(i int) { _ = p(ctx, i) }
	case 4:
		h := Handler[int](func(int) { body() }).Lock()
		call = func(i int) { h(i) }
	case 5:
		f := Future[int](func() int { body(); return 1 }).Lock()
		call = func(int) { _ = f() }
	case 6:
		// different wrappers sharing one mutex through WithLock
		w := Worker(func(context.Context) error { body(); return nil }).WithLock(shared)
		o := Operation(func(context.Context) { body() }).WithLock(shared)
		p := Producer[int](func(context.Context) (int, error) { body(); return 1, nil }).WithLock(shared)
		call = func(i int) {
			switch i % 3 {
			case 0:
				_ = w(ctx)
			case 1:
				o(ctx)
			default:
				_, _ = p(ctx)
			}
		}
	}
	for i := 0; i < c; i++ {
		i := i
		vf.Go(func() { call(i) })
	}
	vf.Quiesce()
	vf.Reach("lock-quiescent")
	vf.Assert(runs == c, "lock-caller-never-ran")
}

// ---------------------------------------------------------------- Retry

const (
	vc15ok = iota
	vc15fail
	vc15skip
	vc15eof
	vc15abort
	vc15canceled
)

func VC15_Retry() {
	kind := vf.Choice("kind", 3)
	n := vf.Int("n")
	vf.Assume(n >= 0)
	vf.Assume(n <= 3)
	ctx := context.Background()
	attempts := 0
	outcomes := make([]int, 0, 4)
	errs := make([]error, 0, 4)
	stopped := false
	attempt := func() error {
		vf.Assert(!stopped, "retry-attempt-after-success-or-terminating-error")
		vf.Assert(attempts < n, "retry-made-more-than-n-attempts")
		attempts++
		k := vf.Choice("outcome", 6)
		outcomes = append(outcomes, k)
		var err error
		switch k {
		case vc15ok:
			stopped = true
		case vc15fail:
			err = &vc15err{attempts}
		case vc15skip:
			err = ErrIteratorSkip
		case vc15eof:
			err = io.EOF
			stopped = true
		case vc15abort:
			err = ers.ErrCurrentOpAbort
			stopped = true
		case vc15canceled:
			err = context.Canceled
			stopped = true
		}
		errs = append(errs, err)
		return err
	}
	var res error
	val := 0
	switch kind {
	case 0:
		res = Worker(func(context.Context) error { return attempt() }).Retry(n)(ctx)
	case 1:
		val, res = Producer[int](func(context.Context) (int, error) { err := attempt(); return 42, err }).Retry(n)(ctx)
	case 2:
		res = Processor[int](func(context.Context, int) error { return attempt() }).Retry(n, 5)(ctx)
	}
	vf.Reach("retry-returned")
	vf.Assert(attempts <= n, "retry-made-more-than-n-attempts")
	succeeded := false
	terminated := false
	for _, k := range outcomes {
		if k == vc15ok {
			succeeded = true
		}
		if k == vc15eof || k == vc15abort || k == vc15canceled {
			terminated = true
		}
	}
	if succeeded {
		vf.Assert(res == nil, "retry-reported-failures-although-an-attempt-succeeded")
		if kind == 1 {
			vf.Assert(val == 42, "retry-lost-the-successful-value")
		}
	}
	if !succeeded && !terminated {
		// it must have used all n attempts
		vf.Assert(attempts == n, "retry-gave-up-early")
		nf := 0
		for i, k := range outcomes {
			if k == vc15fail {
				nf++
				vf.Assert(res != nil && errors.Is(res, errs[i]), "retry-lost-a-failure")
			}
		}
		if nf == 0 {
			vf.Assert(res == nil, "retry-invented-an-error")
		}
	}
	if res != nil {
		vf.Assert(!errors.Is(res, ErrIteratorSkip), "retry-reported-skip")
	}
}

// ---------------------------------------------------------------- hooks, Join

func VC15_Order() {
	kind := vf.Choice("kind", 11)
	cancelled := vf.Choice("ctx-cancelled", 2) == 1
	ctx, cancel := context.WithCancel(context.Background())
	if cancelled {
		cancel()
	}
	defer cancel()
	log := make([]int, 0, 4)
	rec := func(i int) { log = append(log, i) }
	e1 := &vc15err{1}
	var want []int
	switch kind {
	case 0:
		w := Worker(func(context.Context) error { rec(2); return e1 }).PreHook(func(context.Context) { rec(1) }).PostHook(func() { rec(3) })
		err := w(ctx)
		vf.Assert(errors.Is(err, e1), "hooks-lost-the-error")
		want = []int{1, 2, 3}
	case 1:
		o := Operation(func(context.Context) { rec(2) }).PreHook(func(context.Context) { rec(1) }).PostHook(func() { rec(3) })
		o(ctx)
		want = []int{1, 2, 3}
	case 2:
		p := Producer[int](func(context.Context) (int, error) { rec(2); return 9, e1 }).PreHook(func(context.Context) { rec(1) }).PostHook(func() { rec(3) })
		v, err := p(ctx)
		vf.Assert(v == 9 && errors.Is(err, e1), "hooks-lost-the-result")
		want = []int{1, 2, 3}
	case 3:
		p := Processor[int](func(context.Context, int) error { rec(2); return e1 }).PreHook(func(context.Context) { rec(1) }).PostHook(func() { rec(3) })
		err := p(ctx, 1)
		vf.Assert(errors.Is(err, e1), "hooks-lost-the-error")
		want = []int{1, 2, 3}
	case 4:
		f := Future[int](func() int { rec(2); return 9 }).PreHook(func() { rec(1) }).PostHook(func() { rec(3) })
		vf.Assert(f() == 9, "hooks-lost-the-result")
		want = []int{1, 2, 3}
	case 5:
		h := Handler[int](func(int) { rec(2) }).PreHook(func(int) { rec(1) }).Join(func(int) { rec(3) })
		h(0)
		want = []int{1, 2, 3}
	case 6:
		// Join runs in order while no error and the context is live
		w := Worker(func(context.Context) error { rec(1); return nil }).Join(
			func(context.Context) error { rec(2); return nil },
			func(context.Context) error { rec(3); return nil })
		err := w(ctx)
		vf.Assert(err == nil, "join-invented-an-error")
		if cancelled {
			want = []int{1}
		} else {
			want = []int{1, 2, 3}
		}
	case 7:
		// Join stops at the first error
		w := Worker(func(context.Context) error { rec(1); return nil }).Join(
			func(context.Context) error { rec(2); return e1 },
			func(context.Context) error { rec(3); return nil })
		err := w(ctx)
		if cancelled {
			want = []int{1}
			vf.Assert(err == nil, "join-invented-an-error")
		} else {
			want = []int{1, 2}
			vf.Assert(errors.Is(err, e1), "join-lost-the-error")
		}
	case 8:
		o := Operation(func(context.Context) { rec(1) }).Join(func(context.Context) { rec(2) }, func(context.Context) { rec(3) })
		o(ctx)
		if cancelled {
			want = []int{1}
		} else {
			want = []int{1, 2, 3}
		}
	case 9:
		// a panicking pre-hook is converted, the function still runs
		w := Worker(func(context.Context) error { rec(2); return nil }).PreHook(func(context.Context) { rec(1); panic(e1) }).PostHook(func() { rec(3) })
		err := w(ctx)
		vf.Assert(err != nil && errors.Is(err, e1), "prehook-panic-lost")
		want = []int{1, 2, 3}
	case 10:
		p := Processor[int](func(context.Context, int) error { rec(1); return nil }).Join(
			func(context.Context, int) error { rec(2); return nil })
		_ = p(ctx, 0)
		if cancelled {
			want = []int{1}
		} else {
			want = []int{1, 2}
		}
	}
	vf.Reach("order-done")
	vf.Assert(len(log) == len(want), "hook-or-join-part-count")
	if len(log) == len(want) {
		for i := range want {
			vf.Assert(log[i] == want[i], "hook-or-join-order")
		}
	}
}

// ---------------------------------------------------------------- background waiters

// The background function blocks on a release channel. A waiter goroutine
// calls the waiter returned by Launch/Signal/Background/StartGroup. While the
// function is blocked the waiter must be parked; after release it returns.
func VC15_Launch() {
	kind := vf.Choice("kind", 9)
	ctx := context.Background()
	release := make(chan struct{})
	finished := 0
	e1 := &vc15err{1}
	blockOp := func(context.Context) { <-release; finished++ }
	blockW := func(context.Context) error { <-release; finished++; return e1 }
	returned := false
	var gotErr error
	expectErr := false
	nbg := 1
	switch kind {
	case 0:
		w := Operation(blockOp).Launch(ctx)
		vf.Go(func() { w(ctx); returned = true })
	case 1:
		sig := Operation(blockOp).Signal(ctx)
		vf.Go(func() { <-sig; returned = true })
	case 2:
		w := Worker(blockW).Launch(ctx)
		expectErr = true
		vf.Go(func() { gotErr = w(ctx); returned = true })
	case 3:
		sig := Worker(blockW).Signal(ctx)
		expectErr = true
		vf.Go(func() { gotErr = <-sig; returned = true })
	case 4:
		var seen error
		o := Worker(blockW).Background(ctx, func(err error) { seen = err })
		expectErr = true
		vf.Go(func() { o(ctx); gotErr = seen; returned = true })
	case 5:
		// a launched producer is pumped until it fails: the first call blocks,
		// later ones report the end of input
		p := Producer[int](func(context.Context) (int, error) {
			if finished > 0 {
				return 0, io.EOF
			}
			<-release
			finished++
			return 5, nil
		}).Launch(ctx)
		vf.Go(func() {
			v, err := p(ctx)
			vf.Assert(err == nil && v == 5, "launched-producer-lost-its-value")
			returned = true
		})
	case 6:
		got := 0
		w := Producer[int](func(context.Context) (int, error) { <-release; finished++; return 5, e1 }).Background(ctx, func(v int) { got = v })
		expectErr = true
		vf.Go(func() { gotErr = w(ctx); vf.Assert(got == 5, "background-producer-lost-its-value"); returned = true })
	case 7:
		w := Processor[int](func(_ context.Context, in int) error { <-release; finished++; return e1 }).Background(ctx, 3)
		expectErr = true
		vf.Go(func() { gotErr = w(ctx); returned = true })
	case 8:
		nbg = 2
		w := Worker(blockW).StartGroup(ctx, nbg)
		expectErr = true
		vf.Go(func() { gotErr = w(ctx); returned = true })
	}
	vf.Quiesce()
	vf.Assert(!returned, "waiter-completed-before-the-background-execution")
	close(release)
	vf.Quiesce()
	vf.Reach("launch-quiescent")
	vf.Assert(returned, "waiter-never-completed")
	vf.Assert(finished == nbg, "background-execution-count")
	if expectErr && returned {
		vf.Assert(gotErr != nil && errors.Is(gotErr, e1), "waiter-lost-the-background-error")
	}
	vf.Assert(vf.Live() == 0, "background-goroutine-left-behind")
}

// Operation.StartGroup / Add with a WaitGroup are covered by C14.
