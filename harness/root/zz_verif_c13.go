package fun

import "context"

func vc13pick(n int) []int {
	a := vf.Choice("a", n)
	b := vf.Choice("b", n)
	if b < a {
		vf.Assume(false)
	}
	if vf.Thorough() {
		c := vf.Choice("c", n)
		if c < b {
			vf.Assume(false)
		}
		return []int{a, b, c}
	}
	return []int{a, b}
}

func VC13_WaitGroup() {
	wg := &WaitGroup{}
	// two outstanding units, so that the Done calls below stay legal
	wg.Add(3)
	if vf.Choice("extra", 2) == 1 {
		wg.Add(1)
	}
	ctx, cancel := context.WithCancel(context.Background())
	safeDone := func() { wg.Done() }
	ops := []func(){
		func() { wg.Add(1) },
		safeDone,
		func() { _ = wg.Num() },
		func() { _ = wg.IsDone() },
		func() { wg.Wait(ctx) },
		func() { wg.Launch(ctx, func(context.Context) {}) },
		func() { _ = wg.Worker()(ctx) },
		func() { wg.Inc(); wg.Done() },
	}
	for _, i := range vc13pick(len(ops)) {
		vf.Go(ops[i])
	}
	vf.Quiesce()
	cancel()
	vf.Quiesce()
	vf.Reach("waitgroup-pairs")
}

// Lock/WithLock/Once/Limit wrappers: the wrapped function touches plain
// shared state; the wrapper is what keeps concurrent callers from racing.
func VC13_Wrappers() {
	ctx := context.Background()
	shared := 0
	touch := func() int { shared++; return shared }
	kind := vf.Choice("kind", 12)
	var call func()
	switch kind {
	case 0:
		w := Worker(func(context.Context) error { touch(); return nil }).Lock()
		call = func() { _ = w(ctx) }
	case 1:
		o := Operation(func(context.Context) { touch() }).Lock()
		call = func() { o(ctx) }
	case 2:
		p := Producer[int](func(context.Context) (int, error) { return touch(), nil }).Lock()
		call = func() { _, _ = p(ctx) }
	case 3:
		p := Processor[int](func(context.Context, int) error { touch(); return nil }).Lock()
		call = func() { _ = p(ctx, 1) }
	case 4:
		h := Handler[int](func(int) { touch() }).Lock()
		call = func() { h(1) }
	case 5:
		f := Future[int](touch).Lock()
		call = func() { _ = f() }
	case 6:
		w := Worker(func(context.Context) error { touch(); return nil }).Once()
		call = func() { _ = w(ctx); _ = shared }
	case 7:
		p := Producer[int](func(context.Context) (int, error) { return touch(), nil }).Once()
		call = func() { _, _ = p(ctx); _ = shared }
	case 8:
		f := Future[int](touch).Once()
		call = func() { _ = f(); _ = shared }
	case 9:
		n := vf.Range("n", 1, 2)
		f := Future[int](touch).Limit(n)
		call = func() { _ = f() }
	case 10:
		n := vf.Range("n", 1, 2)
		w := Worker(func(context.Context) error { touch(); return nil }).Limit(n)
		call = func() { _ = w(ctx) }
	case 11:
		n := vf.Range("n", 1, 2)
		p := Producer[int](func(context.Context) (int, error) { return touch(), nil }).Limit(n)
		call = func() { _, _ = p(ctx) }
	}
	c := 2
	if vf.Thorough() {
		c = 3
	}
	for i := 0; i < c; i++ {
		vf.Go(func() { call(); call() })
	}
	vf.Quiesce()
	vf.Reach("wrapper-callers")
}
