package fun

import "context"

// C14: fun.WaitGroup.

// Counter arithmetic: a symbolic sequence of Add(num) calls. Inside the
// non-overflowing region Add panics iff counter+num < 0, leaves the counter
// unchanged when it panics, and otherwise Num() is the sum.
func vc14add(wg *WaitGroup, n int) (panicked bool) {
	defer func() {
		if r := recover(); r != nil {
			panicked = true
		}
	}()
	wg.Add(n)
	return false
}

func VC14_AddArith() {
	wg := &WaitGroup{}
	model := 0
	steps := vf.Range("adds", 1, 3)
	for i := 0; i < steps; i++ {
		num := vf.Int("num")
		// stay inside the region where the mathematical sum is representable
		vf.Assume(num >= -(1 << 61))
		vf.Assume(num <= 1<<61)
		before := wg.Num()
		vf.Assert(before == model, "num-differs-from-sum-of-completed-adds")
		p := vc14add(wg, num)
		neg := model+num < 0
		vf.Assert(p == neg, "add-panics-iff-counter-would-become-negative")
		if !p {
			model += num
		}
		vf.Assert(wg.Num() == model, "num-after-add")
		vf.Assert(wg.IsDone() == (model == 0), "isdone-disagrees-with-num")
	}
	vf.Reach("arith-done")
	// Inc/Done are +1/-1
	wg2 := &WaitGroup{}
	wg2.Inc()
	wg2.Inc()
	wg2.Done()
	vf.Assert(wg2.Num() == 1, "inc-done")
	vf.Assert(!vc14add(wg2, -1), "done-to-zero-panicked")
	vf.Assert(vc14add(wg2, -1), "done-below-zero-did-not-panic")
	vf.Assert(wg2.Num() == 0, "num-changed-by-panicking-add")
	// Wait on a zero counter returns at once
	wg2.Wait(context.Background())
	vf.Reach("wait-on-zero-returned")
}

// One round: nWork workers (blocked on a release channel) are started through
// the chosen launcher, nWait waiters call Wait; waiter 0 may have its context
// cancelled. Phase A (workers blocked): only a cancelled waiter may return.
// Phase B (workers released): every waiter has returned, and a waiter with a
// live context saw Num()==0 and every worker finished.
func vc14round(wg *WaitGroup, round int, maxWork, maxWait int) {
	nWork := vf.Range("workers", 1, maxWork)
	nWait := vf.Range("waiters", 1, maxWait)
	launcher := vf.Choice("launcher", 4)
	withCancel := vf.Choice("cancel-waiter0", 2) == 1
	release := make(chan struct{})
	finished := make([]bool, nWork)
	slot := 0
	op := Operation(func(context.Context) {
		<-release
		vf.Yield()
	})
	bg := context.Background()
	mk := func(i int) Operation {
		return func(c context.Context) { op(c); finished[i] = true }
	}
	switch launcher {
	case 0:
		for i := 0; i < nWork; i++ {
			wg.Launch(bg, mk(i))
		}
	case 1:
		for i := 0; i < nWork; i++ {
			mk(i).Add(bg, wg)
		}
	case 2:
		// DoTimes/StartGroup start n copies of one operation
		wg.DoTimes(bg, nWork, func(c context.Context) {
			op(c)
			i := slot
			slot++
			finished[i] = true
		})
	case 3:
		// manual accounting
		wg.Add(nWork)
		for i := 0; i < nWork; i++ {
			i := i
			vf.Go(func() { op(bg); finished[i] = true; wg.Done() })
		}
	}
	vf.Assert(wg.Num() == nWork, "launch-does-not-account-for-its-goroutines")
	ctx0, cancel0 := context.WithCancel(bg)
	returned := make([]bool, nWait)
	sawNum := make([]int, nWait)
	sawAll := make([]bool, nWait)
	ctxLive := make([]bool, nWait)
	for w := 0; w < nWait; w++ {
		w := w
		ctx := bg
		if w == 0 {
			ctx = ctx0
		}
		vf.Go(func() {
			wg.Wait(ctx)
			// observation made by the waiter itself, right after Wait
			ctxLive[w] = ctx.Err() == nil
			sawNum[w] = wg.Num()
			all := true
			for _, f := range finished {
				if !f {
					all = false
				}
			}
			sawAll[w] = all
			returned[w] = true
		})
	}
	if withCancel {
		vf.Go(func() { cancel0() })
	}
	vf.Quiesce()
	for w := 0; w < nWait; w++ {
		if w == 0 && withCancel {
			vf.Assert(returned[w], "waiter-not-released-by-cancellation")
		} else {
			vf.Assert(!returned[w], "wait-returned-while-counter-positive-and-context-live")
		}
	}
	close(release)
	vf.Quiesce()
	if round == 0 {
		vf.Reach("round1-quiescent")
	} else {
		vf.Reach("round2-quiescent")
	}
	for w := 0; w < nWait; w++ {
		vf.Assert(returned[w], "waiter-not-released-when-counter-reached-zero")
		if returned[w] && ctxLive[w] {
			vf.Assert(sawNum[w] == 0, "wait-returned-with-positive-counter")
			vf.Assert(sawAll[w], "wait-returned-before-launched-work-finished")
		}
	}
	vf.Assert(wg.Num() == 0, "counter-not-zero-after-all-done")
	cancel0()
	vf.Quiesce()
	vf.Assert(vf.Live() == 0, "wait-helper-goroutine-left-behind")
}

func VC14_Wait() {
	wg := &WaitGroup{}
	if vf.Thorough() {
		vc14round(wg, 0, 2, 3)
		return
	}
	vc14round(wg, 0, 2, 2)
}

// Reuse: a second round on the same group after the first completed.
func VC14_Reuse() {
	wg := &WaitGroup{}
	if vf.Thorough() {
		vf.SetPreempt(2)
	} else {
		vf.SetPreempt(1)
	}
	vc14round(wg, 0, 1, 2)
	vc14round(wg, 1, 1, 2)
}

// Workers racing with Wait entry: no release gate; Done may land anywhere
// relative to the waiter's check and park.
func VC14_Race() {
	wg := &WaitGroup{}
	mx := 2
	if vf.Thorough() {
		mx = 3
	}
	nWork := vf.Range("workers", 1, mx)
	nWait := vf.Range("waiters", 1, mx)
	bg := context.Background()
	finished := make([]bool, nWork)
	for i := 0; i < nWork; i++ {
		i := i
		wg.Launch(bg, func(context.Context) { finished[i] = true })
	}
	returned := make([]bool, nWait)
	sawAll := make([]bool, nWait)
	for w := 0; w < nWait; w++ {
		w := w
		vf.Go(func() {
			wg.Wait(bg)
			all := true
			for _, f := range finished {
				if !f {
					all = false
				}
			}
			sawAll[w] = all
			returned[w] = true
		})
	}
	vf.Quiesce()
	vf.Reach("race-quiescent")
	for w := 0; w < nWait; w++ {
		vf.Assert(returned[w], "waiter-not-released-when-counter-reached-zero")
		if returned[w] {
			vf.Assert(sawAll[w], "wait-returned-before-launched-work-finished")
		}
	}
	vf.Assert(wg.Num() == 0, "counter-not-zero-after-all-done")
	vf.Assert(vf.Live() == 0, "wait-helper-goroutine-left-behind")
}
