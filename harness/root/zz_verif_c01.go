package fun

import (
	"context"
	"io"
	"sync"
)

// C01: parallel stages deliver every item exactly once.

type vc01item struct {
	ID int
	V  int
}

func vc01input(max int) ([]vc01item, int) {
	n := vf.Range("items", 0, max)
	in := make([]vc01item, n)
	for i := range in {
		in[i] = vc01item{ID: i, V: vf.Int("v")}
	}
	return in, n
}

// tally is the shared record of what arrived where; guarded by its own mutex
// (the consumers are the harness's own goroutines / the workers).
type vc01tally struct {
	mu    sync.Mutex
	seen  []int
	vals  []int
	order []int
}

func newTally(n int) *vc01tally { return &vc01tally{seen: make([]int, n), vals: make([]int, n)} }

func (t *vc01tally) add(it vc01item) {
	t.mu.Lock()
	defer t.mu.Unlock()
	if it.ID < 0 || it.ID >= len(t.seen) {
		vf.Assert(false, "an-item-that-was-never-in-the-input-was-delivered")
		return
	}
	t.seen[it.ID]++
	t.vals[it.ID] = it.V
	t.order = append(t.order, it.ID)
}

func (t *vc01tally) check(in []vc01item, ordered bool) {
	for id := range in {
		vf.Assert(t.seen[id] >= 1, "an-input-item-was-lost")
		vf.Assert(t.seen[id] <= 1, "an-input-item-was-delivered-twice")
		if t.seen[id] >= 1 {
			vf.Assert(t.vals[id] == in[id].V, "an-item-was-altered-on-the-way")
		}
	}
	if ordered {
		for i, id := range t.order {
			vf.Assert(id == i, "order-differs-from-input-order")
		}
	}
}

func vc01drain(ctx context.Context, it *Iterator[vc01item], t *vc01tally, max int) {
	for i := 0; i <= max; i++ {
		v, err := it.ReadOne(ctx)
		if err != nil {
			return
		}
		t.add(v)
	}
}

func VC01_Split() {
	in, n := vc01input(3)
	k := vf.Range("outputs", 1, 2)
	if vf.Thorough() {
		k = vf.Range("outputs3", 1, 3)
	}
	ctx := context.Background()
	t := newTally(n)
	outs := SliceIterator(in).Split(k)
	for i := range outs {
		i := i
		vf.Go(func() { vc01drain(ctx, outs[i], t, n) })
	}
	vf.Quiesce()
	vf.Reach("split-quiescent")
	t.check(in, k == 1)
	vf.Assert(vf.Live() == 0, "goroutine-left-behind")
}

func VC01_ProcessParallel() {
	in, n := vc01input(3)
	w := vf.Range("workers", 1, 2)
	if vf.Thorough() {
		w = vf.Range("workers3", 1, 3)
	}
	ctx := context.Background()
	t := newTally(n)
	err := SliceIterator(in).ProcessParallel(func(_ context.Context, it vc01item) error { t.add(it); return nil },
		WorkerGroupConfNumWorkers(w))(ctx)
	vf.Reach("processparallel-returned")
	vf.Assert(err == nil, "processparallel-failed-without-a-failure")
	t.check(in, w == 1)
	vf.Quiesce()
	vf.Assert(vf.Live() == 0, "goroutine-left-behind")
}

func VC01_Map() {
	in, n := vc01input(3)
	w := vf.Range("workers", 1, 2)
	ctx := context.Background()
	t := newTally(n)
	c := vf.Int("c")
	out := Transform[vc01item, vc01item](func(_ context.Context, it vc01item) (vc01item, error) {
		return vc01item{ID: it.ID, V: it.V + c}, nil
	}).ProcessParallel(SliceIterator(in), WorkerGroupConfNumWorkers(w))
	vc01drain(ctx, out, t, n)
	vf.Assert(out.Close() == nil, "map-failed-without-a-failure")
	vf.Reach("map-drained")
	want := make([]vc01item, n)
	for i := range in {
		want[i] = vc01item{ID: i, V: in[i].V + c}
	}
	t.check(want, w == 1)
	vf.Quiesce()
	vf.Assert(vf.Live() == 0, "goroutine-left-behind")
}

func VC01_Buffers() {
	in, n := vc01input(3)
	ctx := context.Background()
	t := newTally(n)
	parallel := vf.Choice("parallel", 2) == 1
	size := vf.Range("size", 1, 2)
	var out *Iterator[vc01item]
	if parallel {
		out = SliceIterator(in).ParallelBuffer(size)
	} else {
		out = SliceIterator(in).Buffer(size - 1)
	}
	vc01drain(ctx, out, t, n)
	vf.Reach("buffer-drained")
	t.check(in, !parallel || size == 1)
	_ = out.Close()
	vf.Quiesce()
	vf.Assert(vf.Live() == 0, "goroutine-left-behind")
}

func VC01_Merge() {
	in, n := vc01input(3)
	cut := vf.Range("cut", 0, n)
	ctx := context.Background()
	t := newTally(n)
	out := MergeIterators(SliceIterator(in[:cut]), SliceIterator(in[cut:]))
	vc01drain(ctx, out, t, n)
	vf.Reach("merge-drained")
	t.check(in, false)
	vf.Assert(out.Close() == nil, "merge-failed-without-a-failure")
	vf.Quiesce()
	vf.Assert(vf.Live() == 0, "goroutine-left-behind")
}

func VC01_GenerateParallel() {
	in, n := vc01input(2)
	w := vf.Range("workers", 1, 2)
	ctx := context.Background()
	t := newTally(n)
	var mu sync.Mutex
	next := 0
	out := Producer[vc01item](func(context.Context) (vc01item, error) {
		mu.Lock()
		defer mu.Unlock()
		if next >= n {
			return vc01item{}, io.EOF
		}
		next++
		return in[next-1], nil
	}).GenerateParallel(WorkerGroupConfNumWorkers(w))
	vc01drain(ctx, out, t, n)
	vf.Reach("generate-drained")
	t.check(in, false)
	vf.Assert(out.Close() == nil, "generate-failed-without-a-failure")
	vf.Quiesce()
	vf.Assert(vf.Live() == 0, "goroutine-left-behind")
}

// two goroutines share one channel-backed iterator through ReadOne
func VC01_ConcurrentReadOne() {
	in, n := vc01input(3)
	ctx := context.Background()
	t := newTally(n)
	ch := make(chan vc01item, n)
	for _, it := range in {
		ch <- it
	}
	close(ch)
	it := ChannelIterator(ch)
	for g := 0; g < 2; g++ {
		vf.Go(func() { vc01drain(ctx, it, t, n) })
	}
	vf.Quiesce()
	vf.Reach("readone-quiescent")
	t.check(in, false)
}
