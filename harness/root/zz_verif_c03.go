package fun

import (
	"context"
	"errors"
	"fmt"
	"io"

	"github.com/tychoish/fun/ers"
)

// C03: worker-group error contract.

var (
	vc03E1 = errors.New("vc03: injected failure")
	vc03E2 = errors.New("vc03: unrelated")
)

const (
	vc03plain = iota
	vc03wrapped
	vc03panicErr
	vc03panicStr
	vc03panicInt
	vc03skip
	vc03wrappedSkip
	vc03eof
	vc03abort
	vc03canceled
	vc03wrappedDeadline
	vc03excluded
	vc03panicEOF
	vc03panicCanceled
	vc03panicSkip
	vc03nKinds
)

// (a) the classification itself, options symbolic
func VC03_Table() {
	var reported []error
	conf := WorkerGroupConf{
		ContinueOnError:                vf.Bool("continue-on-error"),
		ContinueOnPanic:                vf.Bool("continue-on-panic"),
		IncludeContextExpirationErrors: vf.Bool("include-context"),
		ErrorHandler:                   func(err error) { reported = append(reported, err) },
		ErrorResolver:                  func() error { return nil },
	}
	kind := vf.Choice("error", vc03nKinds+1)
	var err error
	isPanic, isCtx, never := false, false, false
	switch kind {
	case vc03plain:
		err = vc03E1
	case vc03wrapped:
		err = fmt.Errorf("ctx: %w", vc03E1)
	case vc03panicErr:
		err = ers.ParsePanic(vc03E1)
		isPanic = true
	case vc03panicStr:
		err = ers.ParsePanic("boom")
		isPanic = true
	case vc03panicInt:
		err = ers.ParsePanic(42)
		isPanic = true
	case vc03skip:
		err = ErrIteratorSkip
		never = true
	case vc03wrappedSkip:
		err = fmt.Errorf("ctx: %w", ErrIteratorSkip)
		never = true
	case vc03eof:
		err = io.EOF
		never = true
	case vc03abort:
		err = ers.ErrCurrentOpAbort
	case vc03canceled:
		err = context.Canceled
		isCtx = true
	case vc03wrappedDeadline:
		err = fmt.Errorf("ctx: %w", context.DeadlineExceeded)
		isCtx = true
	case vc03excluded:
		conf.ExcludedErrors = []error{vc03E1}
		err = fmt.Errorf("ctx: %w", vc03E1)
		never = true
	case vc03panicEOF:
		// a panic is reported whatever its value carries
		err = ers.ParsePanic(fmt.Errorf("read: %w", io.EOF))
		isPanic = true
	case vc03panicCanceled:
		err = ers.ParsePanic(context.Canceled)
		isPanic = true
	case vc03panicSkip:
		err = ers.ParsePanic(ErrIteratorSkip)
		isPanic = true
	case vc03nKinds:
		err = nil
		never = true
	}
	cont := conf.CanContinueOnError(err)
	vf.Reach("classified")
	nrep := len(reported)
	switch {
	case never:
		vf.Assert(nrep == 0, "non-reportable-error-was-reported")
		if err == nil || kind == vc03skip || kind == vc03wrappedSkip {
			vf.Assert(cont, "skip-or-nil-stopped-the-worker")
		}
	case isPanic:
		vf.Assert(nrep == 1, "panic-not-reported")
		vf.Assert(cont == conf.ContinueOnPanic, "continue-after-panic-differs-from-ContinueOnPanic")
	case isCtx:
		want := 0
		if conf.IncludeContextExpirationErrors {
			want = 1
		}
		vf.Assert(nrep == want, "context-error-reporting-differs-from-IncludeContextExpirationErrors")
	default:
		vf.Assert(nrep == 1, "error-swallowed")
		vf.Assert(cont == conf.ContinueOnError, "continue-after-error-differs-from-ContinueOnError")
	}
	if nrep == 1 {
		vf.Assert(errors.Is(reported[0], err), "reported-error-is-not-the-original")
		if isPanic {
			vf.Assert(errors.Is(reported[0], ErrRecoveredPanic), "reported-panic-lacks-ErrRecoveredPanic")
		}
	}
}

// (b) scenarios: n items, w workers, the user function fails on item `failAt`
type vc03run struct {
	n, w     int
	failAt   int
	kind     int
	contErr  bool
	contPan  bool
	calls    []int // per item: number of invocations
	startAt  []int // per item: stamp of (last) invocation start
	gid      []int
	failGID  int
	failRet  int // stamp when the failing invocation returned
	excluded bool
}

func vc03setup(maxN int) (*vc03run, []OptionProvider[*WorkerGroupConf]) {
	r := &vc03run{}
	r.n = vf.Range("items", 1, maxN)
	r.w = vf.Range("workers", 1, 2)
	r.failAt = vf.Range("fail-at", 0, r.n) // == n: nobody fails
	// the classification of every error shape is VC03_Table's job; the
	// scenarios use one representative per class
	r.kind = []int{0, 2, 4, 5, 7, 8, 9}[vf.Choice("kind", 7)]
	cont := vf.Choice("continue", 2) == 1
	r.contErr, r.contPan = cont, cont
	r.calls = make([]int, r.n)
	r.startAt = make([]int, r.n)
	r.gid = make([]int, r.n)
	opts := []OptionProvider[*WorkerGroupConf]{WorkerGroupConfNumWorkers(r.w)}
	if r.contErr {
		opts = append(opts, WorkerGroupConfContinueOnError())
	}
	if r.contPan {
		opts = append(opts, WorkerGroupConfContinueOnPanic())
	}
	if r.kind == 7 {
		opts = append(opts, WorkerGroupConfAddExcludeErrors(vc03E1))
		r.excluded = true
	}
	return r, opts
}

// user is the body of the user function for item id
func (r *vc03run) user(id int) error {
	r.calls[id]++
	r.startAt[id] = vf.Stamp()
	r.gid[id] = vf.GID()
	if id != r.failAt {
		return nil
	}
	r.failGID = vf.GID()
	var err error
	switch r.kind {
	case 0, 7:
		err = vc03E1
	case 1:
		err = fmt.Errorf("ctx: %w", vc03E1)
	case 2:
		r.failRet = vf.Stamp()
		panic(vc03E1)
	case 3:
		r.failRet = vf.Stamp()
		panic("boom")
	case 4:
		err = ErrIteratorSkip
	case 5:
		err = io.EOF
	case 6:
		err = context.Canceled
	case 8:
		// an ordinary failure for the purpose of "never swallowed" (DESIGN 5.0)
		err = fmt.Errorf("stage: %w", ers.ErrCurrentOpAbort)
	case 9:
		r.failRet = vf.Stamp()
		panic(fmt.Errorf("read: %w", io.EOF))
	}
	r.failRet = vf.Stamp()
	return err
}

func (r *vc03run) check(res error) {
	failed := r.failAt < r.n
	isPanic := r.kind == 2 || r.kind == 3 || r.kind == 9
	reportable := failed && (r.kind <= 3 || r.kind == 8 || r.kind == 9)
	vf.Assert((res != nil) == reportable, "result-nil-iff-no-reportable-failure")
	if res != nil && reportable {
		switch r.kind {
		case 3:
		case 8:
			vf.Assert(errors.Is(res, ers.ErrCurrentOpAbort), "errors-is-does-not-find-the-original-error")
		case 9:
			vf.Assert(errors.Is(res, io.EOF), "errors-is-does-not-find-the-original-error")
		default:
			vf.Assert(errors.Is(res, vc03E1), "errors-is-does-not-find-the-original-error")
		}
		if isPanic {
			vf.Assert(errors.Is(res, ErrRecoveredPanic), "panic-not-reported-as-ErrRecoveredPanic")
		}
	}
	if res != nil {
		vf.Assert(!errors.Is(res, vc03E2), "unrelated-error-reported")
	}
	continues := !failed || r.kind == 4 || (isPanic && r.contPan) || (!isPanic && (r.kind <= 1 || r.kind == 8) && r.contErr)
	if continues {
		for id := 0; id < r.n; id++ {
			vf.Assert(r.calls[id] == 1, "item-not-processed-exactly-once-although-nothing-aborted")
		}
		return
	}
	for id := 0; id < r.n; id++ {
		vf.Assert(r.calls[id] <= 1, "item-processed-twice")
	}
	if reportable {
		// abort mode: the failing worker stops, the others are bounded by the worker count
		after := 0
		for id := 0; id < r.n; id++ {
			if id == r.failAt || r.calls[id] == 0 {
				continue
			}
			if r.startAt[id] > r.failRet {
				after++
				vf.Assert(r.gid[id] != r.failGID, "failing-worker-handled-a-further-item")
			}
		}
		vf.Assert(after <= r.w, "items-started-after-the-first-failure-exceed-the-worker-count")
	}
}

func vc03items(n int) *Iterator[int] {
	in := make([]int, n)
	for i := range in {
		in[i] = i
	}
	return SliceIterator(in)
}

func VC03_ProcessParallel() {
	r, opts := vc03setup(4)
	w := vc03items(r.n).ProcessParallel(func(_ context.Context, id int) error { return r.user(id) }, opts...)
	res := w(context.Background())
	vf.Reach("processparallel-returned")
	r.check(res)
	vf.Quiesce()
	vf.Assert(vf.Live() == 0, "worker-goroutine-left-behind")
}

func VC03_Map() {
	r, opts := vc03setup(3)
	ctx := context.Background()
	out := Transform[int, int](func(_ context.Context, id int) (int, error) { return id + 100, r.user(id) }).ProcessParallel(vc03items(r.n), opts...)
	seen := make([]int, r.n)
	for i := 0; i < r.n+1; i++ {
		v, err := out.ReadOne(ctx)
		if err != nil {
			break
		}
		if v-100 >= 0 && v-100 < r.n {
			seen[v-100]++
		} else {
			vf.Assert(false, "map-invented-an-output")
		}
	}
	res := out.Close()
	vf.Reach("map-closed")
	r.check(res)
	for id := 0; id < r.n; id++ {
		vf.Assert(seen[id] <= 1, "map-duplicated-an-output")
		if id == r.failAt {
			vf.Assert(seen[id] == 0, "map-produced-an-output-for-the-failed-item")
		}
	}
	vf.Quiesce()
	vf.Assert(vf.Live() == 0, "worker-goroutine-left-behind")
}
